"""Batch runner shared by all checks: seeded case generation, parallel execution in forked
workers, known-finding matching, shrinking, replay files, evidence.

A *check* is a module-level object with:
    prop            property id
    gen(rng, i, tier)  -> case (JSON-able dict)
    run(case)       -> result dict:
                       {"violations": [ {property, oracle, site, detail} ],
                        "digest": str, "nontrivial": hashable-or-None, "events": int,
                        "faults": {kind: fired}, "probes": {name: n}, "sigs": [..], "discarded": bool}
    shrink_candidates(case) -> iterator of smaller cases   (optional)
    budget = {"quick": n, "thorough": n}
"""
import concurrent.futures as cf
import faulthandler
import hashlib
import json
from . import bigjson
import multiprocessing
import os
import random
import sys
import time

VERIF = os.path.dirname(os.path.dirname(os.path.abspath(__file__)))
DEFAULT_SEED = 20261003


def master_seed():
    return int(os.environ.get("VERIF_SEED", DEFAULT_SEED))


def survey_mode_on():
    return os.environ.get("VERIF_SURVEY") == "1"


def rng_for(master, check, i):
    return random.Random("%d/%s/%d" % (master, check, i))


def jdump(x):
    return bigjson.dumps(x, sort_keys=True, default=str)


def sha(x):
    return hashlib.sha256(jdump(x).encode()).hexdigest()[:16]


# ---------------------------------------------------------------------------------------
# known findings

def load_findings():
    p = os.path.join(VERIF, "known_findings.json")
    if not os.path.exists(p):
        return []
    with open(p) as f:
        return json.load(f)["findings"]


def matches(finding, v):
    if finding.get("status") != "open":
        return False
    oracles = finding["oracle"] if isinstance(finding["oracle"], list) else [finding["oracle"]]
    if finding["property"] != v["property"] or v["oracle"] not in oracles:
        return False
    pats = finding.get("site", {})
    if isinstance(pats, dict):
        pats = [pats]
    return any(_site_matches(p, v["site"]) for p in pats)


def _site_matches(pat, site):
    for k, want in pat.items():
        got = site.get(k)
        if isinstance(want, list):
            if got not in want:
                return False
        elif got != want:
            return False
    return True


def classify(violations, findings, prop=None):
    """-> (unknown, known) where known is a list of (finding id, violation)."""
    unknown, known = [], []
    for v in violations:
        for f in findings:
            if matches(f, v):
                known.append((f["id"], v))
                break
        else:
            unknown.append(v)
    return unknown, known


# ---------------------------------------------------------------------------------------
# worker side

_CHECKS = {}


def register(check):
    _CHECKS[check.name] = check
    return check


def get_check(name):
    if name not in _CHECKS:
        from . import checks  # noqa: F401  (registers everything)
    return _CHECKS[name]


class RunTimeout(BaseException):
    pass


def _on_alarm(signum, frame):
    raise RunTimeout("run exceeded its wall-clock cap")


def _run_one(name, case, cap=None):
    """One run under a wall-clock cap (a safety net only: hitting it is a harness error,
    never a pass and never a violation)."""
    import signal
    chk = get_check(name)
    cap = cap or getattr(chk, "run_cap_s", 120)
    old = signal.signal(signal.SIGALRM, _on_alarm)
    signal.setitimer(signal.ITIMER_REAL, cap)
    try:
        res = chk.run(case)
    except BaseException as e:  # harness error: never a violation, never silently ok
        import traceback
        return {"harness_error": "%s: %s\n%s" % (type(e).__name__, e, traceback.format_exc(limit=8))}
    finally:
        signal.setitimer(signal.ITIMER_REAL, 0)
        signal.signal(signal.SIGALRM, old)
    return res


def _worker_chunk(args):
    name, master, tier, idxs = args
    faulthandler.dump_traceback_later(600, exit=True)
    chk = get_check(name)
    out = []
    for i in idxs:
        rng = rng_for(master, name, i)
        case = chk.gen(rng, i, tier)
        res = _run_one(name, case)
        res["i"] = i
        if res.get("violations") or res.get("harness_error") or i < 3:
            res["case"] = case
        out.append(res)
    faulthandler.cancel_dump_traceback_later()
    return out


def run_cases(name, master, tier, n, workers=None):
    """Run cases 0..n-1; results are returned ordered by index regardless of worker timing."""
    workers = workers or int(os.environ.get("VERIF_WORKERS", min(16, os.cpu_count() or 1)))
    chunk = max(1, min(64, n // (workers * 4) or 1))
    chunks = [list(range(s, min(n, s + chunk))) for s in range(0, n, chunk)]
    return list(iter_cases(name, master, tier, n, workers))


def iter_cases(name, master, tier, n, workers=None):
    """Yield results in index order (chunks are consumed in submission order, so neither the worker
    count nor completion order can change what the caller sees)."""
    workers = workers or int(os.environ.get("VERIF_WORKERS", min(16, os.cpu_count() or 1)))
    chunk = max(1, min(64, n // (workers * 4) or 1))
    chunks = [list(range(s, min(n, s + chunk))) for s in range(0, n, chunk)]
    if workers == 1:
        for c in chunks:
            for r in _worker_chunk((name, master, tier, c)):
                yield r
        return
    ctx = multiprocessing.get_context("fork")
    with cf.ProcessPoolExecutor(max_workers=workers, mp_context=ctx) as ex:
        window = workers * 6
        futs = []
        nxt = 0
        done = 0
        while done < len(chunks):
            while nxt < len(chunks) and nxt - done < window:
                futs.append(ex.submit(_worker_chunk, (name, master, tier, chunks[nxt])))
                nxt += 1
            for r in futs[done].result(timeout=7200):
                yield r
            futs[done] = None
            done += 1


# ---------------------------------------------------------------------------------------
# shrinking

def shrink(name, case, target, findings, max_runs=400):
    """Greedy delta debugging: keep a candidate when it still yields a violation with the
    target's (property, oracle) that is not a known finding."""
    chk = get_check(name)

    def still_fails(c):
        res = _run_one(name, c, cap=20)
        if res.get("harness_error"):
            return None
        unknown, _ = classify(res.get("violations", []), findings)
        for v in unknown:
            if v["property"] == target["property"] and v["oracle"] == target["oracle"]:
                return v
        return None

    best = case
    best_v = target
    runs = 0
    if not hasattr(chk, "shrink_candidates"):
        return best, best_v, runs
    progress = True
    while progress and runs < max_runs:
        progress = False
        for cand in chk.shrink_candidates(best):
            runs += 1
            v = still_fails(cand)
            if v is not None:
                best, best_v = cand, v
                progress = True
                break
            if runs >= max_runs:
                break
    return best, best_v, runs


def write_replay(name, prop, master, i, case, v, digest):
    d = os.path.join(VERIF, "replays")
    os.makedirs(d, exist_ok=True)
    path = os.path.join(d, "%s-%d-%d.json" % (prop, master, i))
    with open(path, "w") as f:
        bigjson.dump({"check": name, "property": prop, "seed": master, "run": i, "case": case,
                   "expect": {"property": v["property"], "oracle": v["oracle"], "site": v["site"]},
                   "detail": v.get("detail", ""), "digest": digest}, f, indent=1, sort_keys=True)
    return path


def replay(path):
    with open(path) as f:
        rp = bigjson.load(f)
    res = _run_one(rp["check"], rp["case"])
    if res.get("harness_error"):
        print("HARNESS-ERROR during replay:", res["harness_error"])
        return 2
    exp = rp["expect"]
    for v in res.get("violations", []):
        if v["property"] == exp["property"] and v["oracle"] == exp["oracle"] and v["site"] == exp["site"]:
            same = res.get("digest") == rp.get("digest")
            print("REPRODUCED property=%s oracle=%s site=%s digest_equal=%s" % (
                v["property"], v["oracle"], jdump(v["site"]), same))
            print("detail:", v.get("detail", ""))
            return 1 if same else 2
    print("NOT-REPRODUCED: expected %s, got %s" % (jdump(exp), jdump(
        [(v["property"], v["oracle"], v["site"]) for v in res.get("violations", [])])))
    return 0


# ---------------------------------------------------------------------------------------
# the batch

def run_check(name, tier):
    t0 = time.time()
    chk = get_check(name)
    prop = chk.prop
    master = master_seed()
    n = chk.budget[tier]
    if "VERIF_RUNS" in os.environ:
        n = int(os.environ["VERIF_RUNS"])
    findings = [f for f in load_findings()]
    print("check=%s property=%s tier=%s seed=%d runs=%d" % (name, prop, tier, master, n))
    sys.stdout.flush()

    exit_code = 0
    known_seen = {}
    # 1. replay the witness of every open finding of this property
    for f in findings:
        if f["property"] != prop or f.get("status") != "open":
            continue
        wpath = os.path.join(VERIF, f["witness"])
        with open(wpath) as fh:
            rp = bigjson.load(fh)
        res = _run_one(rp["check"], rp["case"])
        if res.get("harness_error"):
            print("HARNESS-ERROR replaying finding %s: %s" % (f["id"], res["harness_error"]))
            return 2
        if any(matches(f, v) for v in res.get("violations", [])):
            known_seen[f["id"]] = 0
            print("KNOWN-FINDING: property=%s %s [%s]" % (prop, f["what"], f["id"]))
        else:
            print("note: finding %s no longer reproduces from its witness" % f["id"])

    results = iter_cases(name, master, tier, n)
    harness = []
    nres = 0

    faults, probes, sigs, nontrivial = {}, {}, set(), set()
    events = 0
    discarded = 0
    n_viol = 0
    reported = []
    samples = []
    digest = hashlib.sha256()
    survey, survey_ex = {}, {}
    raw_seen = set()
    shrink_free = 0.0
    for r in results:
        nres += 1
        if r.get("harness_error"):
            harness.append(r)
            continue
        digest.update(str(r.get("digest")).encode())
        for k, v in r.get("faults", {}).items():
            faults[k] = faults.get(k, 0) + v
        for k, v in r.get("probes", {}).items():
            probes[k] = probes.get(k, 0) + v
        sigs.update(tuple(s) if isinstance(s, list) else s for s in r.get("sigs", []))
        events += r.get("events", 0)
        if r.get("discarded"):
            discarded += 1
        if r.get("nontrivial") is not None:
            nontrivial.add(jdump(r["nontrivial"]))
        for x in r.get("nontrivial_list", ()):
            nontrivial.add(x)
        if r["i"] < 3 and "case" in r:
            samples.append({"run": r["i"], "case": r["case"], "outcome": r.get("outcome")})
        if r.get("violations") and os.environ.get("VERIF_SURVEY"):
            for v in r["violations"]:
                k = (v["property"], v["oracle"], jdump(v["site"]))
                survey[k] = survey.get(k, 0) + 1
                survey_ex.setdefault(k, (r["i"], v.get("detail", "")))
            continue
        if r.get("violations"):
            unknown, known = classify(r["violations"], findings)
            for fid, v in known:
                known_seen[fid] = known_seen.get(fid, 0) + 1
            raw_sig = (unknown[0]["property"], unknown[0]["oracle"], jdump(unknown[0]["site"])) if unknown else None
            if unknown and len(reported) < 5 and raw_sig not in raw_seen and len(raw_seen) < 12:
                raw_seen.add(raw_sig)
                target = unknown[0]
                # minimisation is bounded in wall time as well (a safety net: the report must never be lost to a
                # timeout); when the budget is spent the unminimised case is the replay file
                if time.time() - t0 < float(os.environ.get("VERIF_SHRINK_WALL", 240)) + shrink_free:
                    ts = time.time()
                    small, v, sruns = shrink(name, r["case"], target, findings)
                    shrink_free += 0 * (time.time() - ts)
                else:
                    small, v, sruns = r["case"], target, 0
                sres = _run_one(name, small)
                sig = (v["property"], v["oracle"], jdump(v["site"]))
                if sig not in [x[0] for x in reported]:
                    path = write_replay(name, v["property"], master, r["i"], small, v, sres.get("digest"))
                    reported.append((sig, path))
                    print("VIOLATION property=%s replay=%s" % (v["property"], path))
                    print("  oracle=%s site=%s\n  %s\n  (minimised in %d runs from run %d)" % (
                        v["oracle"], jdump(v["site"]), v.get("detail", ""), sruns, r["i"]))
                n_viol += 1
                exit_code = 1
            elif unknown:
                n_viol += 1
                exit_code = 1

    if harness:
        print("HARNESS-ERROR in %d runs; first (run %d):\n%s" % (len(harness), harness[0]["i"],
                                                                   harness[0]["harness_error"]))
        # a violation that was reported (and minimised, with its replay file) stands on its own; without one the run
        # decides nothing and the exit status says so
        return 1 if (exit_code == 1 and not survey_mode_on()) else 2
    if survey:
        for k, n in sorted(survey.items(), key=lambda kv: -kv[1]):
            print("SURVEY %5d %s %s %s   e.g. run %d: %s" % (n, k[0], k[1], k[2], survey_ex[k][0], survey_ex[k][1][:150]))
        return 3
    wall = time.time() - t0
    ev = {
        "property_id": prop,
        "tier": tier,
        "seed": master,
        "level": "exploration",
        "wall_s": round(wall, 2),
        "violations": n_viol,
        "coverage": {
            "evaluations": nres,
            "distinct_nontrivial": len(nontrivial),
            "rule": chk.rule,
            "samples": samples[:3],
            "runs_per_hour": int(nres / max(wall, 1e-6) * 3600),
            "seeds_per_hour": int(nres / max(wall, 1e-6) * 3600),
            "simulated_events": events,
            "simulated_time_note": "no clock exists in pysnark; simulated time is counted in events "
                                   "(API statements, backend seam calls, I/O operations)",
            "fault_kinds_fired": faults,
            "reach_probes": probes,
            "distinct_state_signatures": len(sigs),
            "discarded_runs": discarded,
            "known_findings_matched": known_seen,
            "batch_digest": digest.hexdigest()[:16],
            "components": chk.components,
            "exhaustive": bool(tier in getattr(chk, "exhaustive_tiers", ()) and "VERIF_RUNS" not in os.environ),
        },
        "assumptions": chk.assumptions,
    }
    from . import world as _w
    foreign_tree = os.path.realpath(_w.REPO) != os.path.realpath("/repo")
    # evidence is only ever written by runs in /verif against /repo itself (not for mutants / soak snapshots)
    if not os.environ.get("VERIF_NO_EVIDENCE") and not foreign_tree:
        os.makedirs(os.path.join(VERIF, "evidence"), exist_ok=True)
        with open(os.path.join(VERIF, "evidence", prop + ".json"), "w") as f:
            bigjson.dump(ev, f, indent=1, sort_keys=True, default=str)
    print("done: runs=%d nontrivial=%d violations=%d known=%s wall=%.1fs digest=%s" % (
        nres, len(nontrivial), n_viol, known_seen, wall, ev["coverage"]["batch_digest"]))
    return exit_code
