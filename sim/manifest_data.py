"""Static texts for MANIFEST.json."""

DS = "deterministic simulation with fault injection"

ENGINES = [
    {"name": "tracesim", "path": "sim/tracesim.py",
     "serves_properties": ["C01", "C04", "C06", "C08"],
     "kind_free_text": "in-process deterministic simulation: seeded plan (program + inputs + fault schedule) "
                       "generated as data, compiled to Python source, executed against a fresh import of the real "
                       "pysnark with the real backend module wrapped by a recorder; invariants after every event"},
]

NOTES = ("All checks: ./vcheck <id> quick|thorough ; replay: ./vcheck replay <file>. One VERIF_SEED = one exactly "
         "repeatable batch (PYTHONHASHSEED pinned by the launcher). Budgets are run counts, not seconds.")

NOT_APPLICABLE = [
    {"property_id": "C05", "reason": "pure function of operands and bitlength: no order of events, fault, crash "
                                     "point, I/O, environment or second party for a simulation to control "
                                     "(DESIGN.md section 4)"},
    {"property_id": "C14", "reason": "pure function of operands and resolution, same argument as C05 "
                                     "(DESIGN.md section 4)"},
]

_T = "seeded search over event histories and fault schedules (deterministic simulation, fault injection)"

CHECK_META = {
    "C01": {"engine": "tracesim", "design_ref": "3/C01", "technique": _T,
            "text": "seeded histories of API events incl. false guards, caught errors and backend-seam aborts; every "
                    "emitted constraint evaluated on an independently recorded assignment after every statement; "
                    "sampling, not proof",
            "note": "trusts the recorder's wrapper (copies of the LC dicts at call time) and the hard-coded primes"},
    "C04": {"engine": "tracesim", "design_ref": "3/C04", "technique": _T,
            "text": "invariant value == wire on every live secret object after every event, with emphasis on error "
                    "paths (false guards, ignore_errors); sampling",
            "note": "objects are found through script variables, lists, tuples, dicts and Array; objects held only "
                    "inside the library are not seen"},
    "C06": {"engine": "tracesim", "design_ref": "3/C06", "technique": _T + "; twin executions",
            "text": "twin executions of one history on different inputs / guard outcomes / error mode; statement-by-"
                    "statement comparison of canonical event logs; sampling",
            "note": "pairs in which either twin raises are discarded (counted in evidence)"},
    "C08": {"engine": "tracesim", "design_ref": "3/C08", "technique": _T,
            "text": "enter/leave/abort histories of guarded regions with exceptions injected at statement boundaries "
                    "and backend seam calls; snapshot model checked by identity in a finally after every region; "
                    "sampling",
            "note": "abort points are statement boundaries, seam calls and library-raised errors, not arbitrary "
                    "bytecode boundaries"},
}
