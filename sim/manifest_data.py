"""Static texts for MANIFEST.json."""

DS = "deterministic simulation with fault injection"

ENGINES = [
    {"name": "qapsim", "path": "sim/qapsim.py",
     "serves_properties": ["C12"],
     "kind_free_text": "the qaptools backend as a small distributed system in one process: real pysnark.qaptools.* "
                       "modules over a simulated directory (SimFS: buffer capacity, visibility on flush/close/"
                       "last reference, injectable write errors), six external tools replaced by in-process fakes that "
                       "read the directory as visible at call time and can be made to fail, multi-run histories"},
    {"name": "exitsim", "path": "sim/exitsim.py",
     "serves_properties": ["C18", "C19", "C20"],
     "kind_free_text": "one fresh interpreter per run: generated script with a terminator at a chosen statement "
                       "position (crash point), real atexit/sys.exit/excepthook machinery, side-channel trace dump, "
                       "scratch working directory with optional stale artefacts; judged from the real exit status"},
    {"name": "proversim", "path": "sim/proversim.py",
     "serves_properties": ["C02", "C03", "C16"],
     "kind_free_text": "byzantine second party: one honest run gives the constraint system, operand wires and hint "
                       "wires; dishonest provers lie on hint wires (wire lies decided by evaluating the recorded "
                       "system on the edited assignment with forward re-derivation of dependent hints; shadow lies "
                       "re-executed through the library with ignore_errors on); the verifier is constraint evaluation"},
    {"name": "tracesim", "path": "sim/tracesim.py",
     "serves_properties": ["C01", "C04", "C06", "C07", "C08", "C09", "C10", "C11", "C13", "C15", "C17"],
     "kind_free_text": "in-process deterministic simulation: seeded plan (program + inputs + fault schedule) "
                       "generated as data, compiled to Python source, executed against a fresh import of the real "
                       "pysnark with the real backend module wrapped by a recorder; invariants after every event"},
]

NOTES = ("All checks: ./vcheck <id> quick|thorough ; replay: ./vcheck replay <file>. One VERIF_SEED = one exactly "
         "repeatable batch (PYTHONHASHSEED pinned by the launcher). Budgets are run counts, not seconds.")

NOT_APPLICABLE = [
    {"property_id": "C05", "reason": "pure function of operands and bitlength: no order of events, fault, crash "
                                     "point, I/O, environment or second party for a simulation to control "
                                     "(DESIGN.md section 4)"},
    {"property_id": "C14", "reason": "pure function of operands and resolution, same argument as C05 "
                                     "(DESIGN.md section 4)"},
]

_T = "seeded search over event histories and fault schedules (deterministic simulation, fault injection)"

_P = "seeded search over lying-prover fault schedules (deterministic simulation, byzantine fault injection)"

_X = "seeded search over crash points x termination modes x configurations, one fresh interpreter per run (deterministic simulation, crash injection)"

CHECK_META = {
    "C12": {"engine": "qapsim", "design_ref": "3/C12", "technique": "seeded search over I/O schedules, tool failures and multi-run directory histories on a simulated file system (deterministic simulation with fault injection)",
            "text": "file visibility (writer buffer capacity as a fault), external-process failures, write errors, two "
                    "runs in one directory; independent parser/evaluator of the equation grammar as oracle; sampling",
            "note": "SimFS is my model of CPython file semantics; the fake tools are my reading of the grammar; the real "
                    "binaries are not available offline"},
    "C13": {"engine": "tracesim (LC-pool histories)", "design_ref": "3/C13", "technique": "seeded search over operation histories on shared objects (deterministic simulation); coefficient-vector reference model",
            "text": "operation histories over a shared pool of linear combinations per backend class, every pool member "
                    "compared with a coefficient-vector model after every step (operand immutability / aliasing), "
                    "modulus and inverse checks per configuration; sampling",
            "note": "gmpy2's invert path and libsnark's C++ class cannot be loaded here"},
    "C15": {"engine": "tracesim+proversim", "design_ref": "3/C15", "technique": _T + "; Python-list reference model; twin on index; lying prover",
            "text": "read/write histories vs a Python-list model executed from the same generated source, compared after "
                    "every operation; twin on the index value for the constraint system; out-of-range index against a "
                    "prover without the Python check; sampling",
            "note": "arrays up to 5 / 4x3, histories up to 8 operations"},
    "C17": {"engine": "tracesim", "design_ref": "3/C17", "technique": _T + "; ordered public-wire log; fault injection on the public assignment",
            "text": "sequences of wrapped calls; ordered log of public allocations during each call vs flattened "
                    "arguments/results; native twin for the return value; each output's public value tampered alone; "
                    "sampling",
            "note": "function bodies are small expressions over the argument leaves (+ - * comparisons boolean ops) "
                    "whose traced and native semantics coincide"},
    "C09": {"engine": "tracesim", "design_ref": "3/C09", "technique": _T + "; native-control-flow twin as reference model",
            "text": "histories of branch-stack events (enter / elif / else / exit / loop iteration / break) generated as "
                    "plans; the same plan is emitted as oblivious code and as native control flow on plain ints; final "
                    "variables compared, constraints evaluated, structure compared across inputs; sampling",
            "note": "conditions are made secret-typed by construction; bounds of _range are taken from the non-negative "
                    "inputs; checkstopmax is modelled as 'raises iff the loop was still running at the cap'"},
    "C07": {"engine": "tracesim+proversim", "design_ref": "3/C07", "technique": _T + "; twin executions; lying prover on dead-region hints",
            "text": "guards as fault-containment regions: domain faults injected inside false-guard regions at every "
                    "nesting level (no value-caused exception may escape, trace stays satisfied, lies on dead hints "
                    "cannot move outside values); unguarded twin for true guards; sampling",
            "note": "plain-int zero divisors and plain-int out-of-range indices are the script's own static errors and "
                    "are not generated / not judged; 'same enforcement' under true guards is covered only through "
                    "the equality of errors and values with the unguarded twin"},
    "C19": {"engine": "exitsim", "design_ref": "3/C19", "technique": _X + "; thorough tier sweeps the whole finite configuration space",
            "text": "configuration x import-order history x import-failure faults, one fresh interpreter each, plus a "
                    "short traced program; quick samples 320 of the 976 configurations, thorough runs all of them",
            "note": "libsnark rows use a fake libsnark module (selection only), qaptools rows fake executables, "
                    "zkinterface rows the flatbuffers stub"},
    "C20": {"engine": "exitsim", "design_ref": "3/C20", "technique": _X + "; plain-integer reference as oracle",
            "text": "how the backend got selected (env / pre-import / auto-detect / pre-import overriding env) x field "
                    "x seeded inputs, one interpreter each; parameter set in use vs table entry of the selected backend; "
                    "traced permutation/sponge/subset-sum vs plain-integer reference (sampled by-product)",
            "note": "reference Poseidon is the checker's reading of the round structure; constants are read from the "
                    "repository's table, so a wrong table entry is only caught through the two published vectors"},
    "C18": {"engine": "exitsim", "design_ref": "3/C18", "technique": _X,
            "text": "crash point x termination mode x backend x autoprove x stale-artefact histories, each in a fresh "
                    "interpreter; expected outcome is a function of the real exit status; sampling of a small space "
                    "(thorough tier covers every mode/argument/backend combination many times)",
            "note": "os._exit / SIGKILL only checked for 'nothing partial appears'; qaptools rows use fake tool "
                    "executables; two open known findings (SystemExit raised directly; caught sys.exit)"},
    "C02": {"engine": "proversim", "design_ref": "3/C02", "technique": _P,
            "text": "search for a second satisfying assignment with unchanged operands and a different result: every "
                    "hint wire x ~40 candidate lies incl. field quotients, with forward re-derivation, adjacent pairs, "
                    "shadow lies; sound alarms (the replay is a second assignment), incomplete search",
            "note": "a clean batch says nothing about provers needing >= 3 coordinated non-local lies; two open known "
                    "findings (bitwise ops with a plain int; unbounded divmod quotient)"},
    "C03": {"engine": "proversim", "design_ref": "3/C03", "technique": _P,
            "text": "per assertion kind and operand vector on both sides of the relation: run-time verdict vs circuit "
                    "verdict with honest hints vs circuit under lying prover with checks removed; sampling",
            "note": "relation truth is taken from the run-time check itself (the property equates the two)"},
    "C16": {"engine": "proversim", "design_ref": "3/C16", "technique": _P,
            "text": "width actually enforced against a prover who removed the Python checks and lies on hints; round "
                    "trips of to_bits/from_bits and packer schemas as sampled by-product",
            "note": "packer schemas up to depth 3 and 24 bits"},
    "C10": {"engine": "tracesim", "design_ref": "3/C10", "technique": _T + "; independent decoder of the artefacts",
            "text": "histories interleaving public/private allocations, real prove() into a scratch directory, "
                    "independent decoder, comparison with the recorder's event log; sampling",
            "note": "nLabels and the wire-to-label section content are not compared with anything"},
    "C11": {"engine": "tracesim", "design_ref": "3/C11", "technique": _T + "; independent decoder; twin runs",
            "text": "as C10 for three field configurations plus twin runs on private values for the verifier file; "
                    "sampling",
            "note": "FlatBuffers bytes are produced by the stub builder under verif/stubs/py: byte layout of the real "
                    "library is not checked"},
    "C01": {"engine": "tracesim", "design_ref": "3/C01", "technique": _T,
            "text": "seeded histories of API events incl. false guards, caught errors and backend-seam aborts; every "
                    "emitted constraint evaluated on an independently recorded assignment after every statement; "
                    "sampling, not proof",
            "note": "trusts the recorder's wrapper (copies of the LC dicts at call time) and the hard-coded primes"},
    "C04": {"engine": "tracesim", "design_ref": "3/C04", "technique": _T,
            "text": "invariant value == wire on every live secret object after every event, with emphasis on error "
                    "paths (false guards, ignore_errors); sampling",
            "note": "objects are found through script variables, lists, tuples, dicts and Array; objects held only "
                    "inside the library are not seen"},
    "C06": {"engine": "tracesim", "design_ref": "3/C06", "technique": _T + "; twin executions",
            "text": "twin executions of one history on different inputs / guard outcomes / error mode; statement-by-"
                    "statement comparison of canonical event logs; sampling",
            "note": "pairs in which either twin raises are discarded (counted in evidence)"},
    "C08": {"engine": "tracesim", "design_ref": "3/C08", "technique": _T,
            "text": "enter/leave/abort histories of guarded regions with exceptions injected at statement boundaries "
                    "and backend seam calls; snapshot model checked by identity in a finally after every region; "
                    "sampling",
            "note": "abort points are statement boundaries, seam calls and library-raised errors, not arbitrary "
                    "bytecode boundaries"},
}
