"""json for plans and traces that may hold integers of more than 4300 decimal digits.

CPython refuses int <-> str conversions beyond sys.get_int_max_str_digits() (4300 by default).  That limit is part of
the surroundings the library under test runs in, so it is lifted only for the duration of the checker's own
(de)serialisation and put back before any library code runs again."""
import json
import sys


class lifted:
    def __enter__(self):
        self.old = sys.get_int_max_str_digits()
        sys.set_int_max_str_digits(0)

    def __exit__(self, *a):
        sys.set_int_max_str_digits(self.old)


def dumps(*a, **k):
    with lifted():
        return json.dumps(*a, **k)


def dump(*a, **k):
    with lifted():
        return json.dump(*a, **k)


def loads(*a, **k):
    with lifted():
        return json.loads(*a, **k)


def load(*a, **k):
    with lifted():
        return json.load(*a, **k)
