"""Independent decoders of the artefact formats, written from the format descriptions
(iden3 r1cs / wtns binary formats, FlatBuffers encoding + zkinterface.fbs), not from the
writers under test.  Every decoder is bounds-checked and reports the first structural
problem as FormatError(where, what)."""
import struct


class FormatError(Exception):
    def __init__(self, where, what):
        Exception.__init__(self, "%s: %s" % (where, what))
        self.where = where
        self.what = what


class Reader:
    def __init__(self, data, name):
        self.d = data
        self.pos = 0
        self.name = name

    def need(self, n, what):
        if n < 0 or self.pos + n > len(self.d):
            raise FormatError(self.name, "truncated while reading %s at offset %d" % (what, self.pos))

    def u32(self, what):
        self.need(4, what)
        v = struct.unpack_from("<I", self.d, self.pos)[0]
        self.pos += 4
        return v

    def u64(self, what):
        self.need(8, what)
        v = struct.unpack_from("<Q", self.d, self.pos)[0]
        self.pos += 8
        return v

    def raw(self, n, what):
        self.need(n, what)
        v = self.d[self.pos:self.pos + n]
        self.pos += n
        return v

    def le(self, n, what):
        return int.from_bytes(self.raw(n, what), "little")


def _sections(r, magic, version, nsections):
    if r.raw(4, "magic") != magic:
        raise FormatError(r.name + ":magic", "not %r" % magic)
    v = r.u32("version")
    if v != version:
        raise FormatError(r.name + ":version", "version %d, expected %d" % (v, version))
    n = r.u32("number of sections")
    if n != nsections:
        raise FormatError(r.name + ":sections", "%d sections declared, expected %d" % (n, nsections))
    secs = {}
    order = []
    for _ in range(n):
        t = r.u32("section type")
        size = r.u64("section size")
        r.need(size, "section %d body (%d bytes declared)" % (t, size))
        if t in secs:
            raise FormatError(r.name + ":sections", "section type %d appears twice" % t)
        secs[t] = (r.pos, size)
        order.append(t)
        r.pos += size
    if r.pos != len(r.d):
        raise FormatError(r.name + ":trailing", "%d trailing bytes after the last section" % (len(r.d) - r.pos))
    return secs, order


def decode_wtns(data):
    r = Reader(data, "wtns")
    secs, order = _sections(r, b"wtns", 2, 2)
    if 1 not in secs or 2 not in secs:
        raise FormatError("wtns:sections", "sections %r, expected types 1 and 2" % order)
    pos, size = secs[1]
    h = Reader(data[pos:pos + size], "wtns:header")
    n8 = h.u32("n8")
    if n8 == 0 or n8 % 8:
        raise FormatError("wtns:header", "field size %d is not a positive multiple of 8" % n8)
    prime = h.le(n8, "prime")
    nw = h.u32("number of witness values")
    if h.pos != size:
        raise FormatError("wtns:header", "header section is %d bytes, content is %d" % (size, h.pos))
    pos, size = secs[2]
    if size != nw * n8:
        raise FormatError("wtns:values", "section size %d != %d values x %d bytes" % (size, nw, n8))
    b = Reader(data[pos:pos + size], "wtns:values")
    vals = [b.le(n8, "value %d" % i) for i in range(nw)]
    for i, v in enumerate(vals):
        if v >= prime:
            raise FormatError("wtns:values", "value %d (wire %d) is not canonical: >= prime" % (v, i))
    return {"n8": n8, "prime": prime, "values": vals}


def decode_r1cs(data):
    r = Reader(data, "r1cs")
    secs, order = _sections(r, b"r1cs", 1, 3)
    for t in (1, 2, 3):
        if t not in secs:
            raise FormatError("r1cs:sections", "sections %r, expected types 1, 2, 3" % order)
    pos, size = secs[1]
    h = Reader(data[pos:pos + size], "r1cs:header")
    n8 = h.u32("n8")
    if n8 == 0 or n8 % 8:
        raise FormatError("r1cs:header", "field size %d is not a positive multiple of 8" % n8)
    prime = h.le(n8, "prime")
    nwires = h.u32("nWires")
    npubout = h.u32("nPubOut")
    npubin = h.u32("nPubIn")
    nprvin = h.u32("nPrvIn")
    nlabels = h.u64("nLabels")
    ncons = h.u32("mConstraints")
    if h.pos != size:
        raise FormatError("r1cs:header", "header section is %d bytes, content is %d" % (size, h.pos))
    pos, size = secs[2]
    c = Reader(data[pos:pos + size], "r1cs:constraints")
    cons = []
    for i in range(ncons):
        trip = []
        for part in "ABC":
            nt = c.u32("constraint %d %s term count" % (i, part))
            lc = []
            seen = set()
            for _ in range(nt):
                w = c.u32("wire id")
                coef = c.le(n8, "coefficient")
                if w >= nwires:
                    raise FormatError("r1cs:constraints", "constraint %d %s: wire id %d >= nWires %d" % (
                        i, part, w, nwires))
                if coef >= prime:
                    raise FormatError("r1cs:constraints", "constraint %d %s: coefficient not canonical" % (i, part))
                if w in seen:
                    raise FormatError("r1cs:constraints", "constraint %d %s: wire %d listed twice" % (i, part, w))
                seen.add(w)
                lc.append((w, coef))
            trip.append(lc)
        cons.append(trip)
    if c.pos != size:
        raise FormatError("r1cs:constraints", "section size %d, %d constraints occupy %d" % (size, ncons, c.pos))
    pos, size = secs[3]
    if size != 8 * nwires:
        raise FormatError("r1cs:wire2label", "section size %d != 8 x nWires %d" % (size, nwires))
    return {"n8": n8, "prime": prime, "nwires": nwires, "npubout": npubout, "npubin": npubin,
            "nprvin": nprvin, "nlabels": nlabels, "constraints": cons}


# ---------------------------------------------------------------------------------------
# FlatBuffers reader (generic) + zkinterface schema

class FB:
    def __init__(self, buf, name):
        self.b = buf
        self.name = name

    def chk(self, pos, n, what):
        if pos < 0 or pos + n > len(self.b):
            raise FormatError(self.name, "%s out of bounds (offset %d, %d bytes, buffer %d)" % (
                what, pos, n, len(self.b)))

    def u8(self, pos, what="u8"):
        self.chk(pos, 1, what)
        return self.b[pos]

    def u16(self, pos, what="u16"):
        self.chk(pos, 2, what)
        return struct.unpack_from("<H", self.b, pos)[0]

    def u32(self, pos, what="u32"):
        self.chk(pos, 4, what)
        return struct.unpack_from("<I", self.b, pos)[0]

    def i32(self, pos, what="i32"):
        self.chk(pos, 4, what)
        return struct.unpack_from("<i", self.b, pos)[0]

    def u64(self, pos, what="u64"):
        self.chk(pos, 8, what)
        if pos % 8:
            raise FormatError(self.name, "%s at offset %d is not 8-byte aligned" % (what, pos))
        return struct.unpack_from("<Q", self.b, pos)[0]

    def indirect(self, pos, what):
        if pos % 4:
            raise FormatError(self.name, "offset field of %s at %d is not 4-byte aligned" % (what, pos))
        off = self.u32(pos, what)
        if off == 0:
            raise FormatError(self.name, "null offset for %s" % what)
        return pos + off

    def table(self, pos, what):
        if pos % 4:
            raise FormatError(self.name, "table %s at %d is not 4-byte aligned" % (what, pos))
        vt = pos - self.i32(pos, what + " vtable offset")
        vsize = self.u16(vt, what + " vtable size")
        tsize = self.u16(vt + 2, what + " table size")
        if vsize < 4 or vsize % 2:
            raise FormatError(self.name, "%s: bad vtable size %d" % (what, vsize))
        self.chk(vt, vsize, what + " vtable")
        self.chk(pos, tsize, what + " table body")
        fields = []
        for i in range((vsize - 4) // 2):
            o = self.u16(vt + 4 + 2 * i)
            if o and o >= tsize:
                raise FormatError(self.name, "%s: field %d offset %d outside table of %d bytes" % (what, i, o, tsize))
            fields.append(o)
        return Table(self, pos, fields, what)

    def vector(self, pos, elem, what):
        if pos % 4:
            raise FormatError(self.name, "vector %s at %d is not 4-byte aligned" % (what, pos))
        n = self.u32(pos, what + " length")
        self.chk(pos + 4, n * elem, what + " elements")
        return n, pos + 4


class Table:
    def __init__(self, fb, pos, fields, what):
        self.fb, self.pos, self.fields, self.what = fb, pos, fields, what

    def off(self, i):
        return self.fields[i] if i < len(self.fields) else 0

    def scalar(self, i, kind, default=0):
        o = self.off(i)
        if not o:
            return default
        p = self.pos + o
        return {"u8": self.fb.u8, "u64": self.fb.u64, "u32": self.fb.u32}[kind](p, "%s field %d" % (self.what, i))

    def ref(self, i):
        o = self.off(i)
        if not o:
            return None
        return self.fb.indirect(self.pos + o, "%s field %d" % (self.what, i))


def _variables(fb, pos, what):
    t = fb.table(pos, what)
    ids, vals = [], b""
    p = t.ref(0)
    if p is not None:
        n, base = fb.vector(p, 8, what + ".variable_ids")
        ids = [fb.u64(base + 8 * i, what + ".variable_ids[%d]" % i) for i in range(n)]
    p = t.ref(1)
    if p is not None:
        n, base = fb.vector(p, 1, what + ".values")
        vals = bytes(fb.b[base:base + n])
    if ids:
        if len(vals) % len(ids):
            raise FormatError(fb.name, "%s: %d value bytes not divisible by %d ids" % (what, len(vals), len(ids)))
        es = len(vals) // len(ids)
        values = [int.from_bytes(vals[i * es:(i + 1) * es], "little") for i in range(len(ids))]
    else:
        if vals:
            raise FormatError(fb.name, "%s: values without ids" % what)
        es, values = 0, []
    return {"ids": ids, "values": values, "elem_size": es}


def decode_zkif(data):
    """-> list of messages: {'type': 'header'|'constraints'|'witness'|'command', ...}"""
    msgs = []
    pos = 0
    k = 0
    while pos < len(data):
        if pos + 4 > len(data):
            raise FormatError("zkif:frame", "truncated size prefix at offset %d" % pos)
        size = struct.unpack_from("<I", data, pos)[0]
        if size < 8 or pos + 4 + size > len(data):
            raise FormatError("zkif:frame", "message %d declares %d bytes, %d remain" % (k, size, len(data) - pos - 4))
        # offsets inside a size-prefixed buffer are relative to the start of the buffer incl. the
        # prefix for alignment purposes; decode on the slice that starts at the prefix
        fb = FB(data[pos:pos + 4 + size], "zkif:msg%d" % k)
        root = fb.table(fb.indirect(4, "root"), "Root")
        mtype = root.scalar(0, "u8")
        mpos = root.ref(1)
        if mtype == 0 or mpos is None:
            raise FormatError(fb.name, "root has no message (type %d)" % mtype)
        if mtype == 1:
            t = fb.table(mpos, "CircuitHeader")
            m = {"type": "header"}
            p = t.ref(0)
            m["instance"] = _variables(fb, p, "instance_variables") if p is not None else None
            m["free_variable_id"] = t.scalar(1, "u64")
            p = t.ref(2)
            if p is not None:
                n, base = fb.vector(p, 1, "field_maximum")
                m["field_maximum"] = int.from_bytes(bytes(fb.b[base:base + n]), "little")
                m["field_maximum_len"] = n
            else:
                m["field_maximum"] = None
        elif mtype == 2:
            t = fb.table(mpos, "ConstraintSystem")
            m = {"type": "constraints", "constraints": []}
            p = t.ref(0)
            if p is not None:
                n, base = fb.vector(p, 4, "constraints")
                for i in range(n):
                    c = fb.table(fb.indirect(base + 4 * i, "constraint %d" % i), "BilinearConstraint")
                    trip = []
                    for j, nm in enumerate("ABC"):
                        q = c.ref(j)
                        if q is None:
                            raise FormatError(fb.name, "constraint %d has no linear_combination_%s" % (i, nm.lower()))
                        trip.append(_variables(fb, q, "constraint %d %s" % (i, nm)))
                    m["constraints"].append(trip)
        elif mtype == 3:
            t = fb.table(mpos, "Witness")
            p = t.ref(0)
            m = {"type": "witness", "assigned": _variables(fb, p, "assigned_variables") if p is not None else None}
        elif mtype == 4:
            m = {"type": "command"}
        else:
            raise FormatError(fb.name, "unknown message type %d" % mtype)
        m["offset"] = pos
        m["size"] = size
        msgs.append(m)
        pos += 4 + size
        k += 1
    return msgs
