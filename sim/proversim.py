"""proversim: the second party.  The verifier accepts any assignment that satisfies the
emitted constraints; the simulated fault is a prover that lies on hint wires.

For one (plan, inputs): an honest run H gives the constraint system, the operand wires
(the plan's inputs), the hint wires (every other private allocation) and the result
expressions.  Dishonest executions are then derived from it:

  lie-wire    the prover edits witness wires after the fact.  The program's control flow
              never looks at backend values, so such an execution has H's constraint
              system by construction and is decided by evaluating the constraints on the
              edited assignment.  After the lie the prover re-derives dependent hints the
              way a witness generator would (forward, latest-allocated unknown of each
              violated constraint, solving one linear unknown; bit re-decomposition for
              recomposition constraints).
  lie-shadow  the prover runs modified witness code: the k-th hint is replaced inside
              runtime.PrivVal, so the library itself derives later hints from the lie.
              The program is re-executed (ignore_errors on) and counts only if its
              constraint system equals H's.

Verdict: all constraints satisfied and a designated result evaluates differently from H
(or a boolean-typed result is not 0/1)  =>  `second_assignment`.
"""
from . import world as W
from . import tracesim as T


def inv(x, p):
    return pow(x % p, p - 2, p)


class Trace:
    """Constraint system + honest assignment of one completed run."""

    def __init__(self, tr):
        rec = tr.w.rec
        self.p = rec.p
        self.pub = list(rec.pub)
        self.priv = list(rec.priv)
        self.cons = [tuple({k: c % self.p for k, c in x.items() if c % self.p} for x in con)
                     for con in rec.cons]
        self.kinds = rec.kinds()
        n_in = tr.marks[0][1] if tr.marks else 0
        self.operands = set()
        for e, idx in self._alloc_indices(rec.events[:n_in]):
            self.operands.add(idx)
        self.hints = [-(i + 1) for i in range(len(self.priv)) if -(i + 1) not in self.operands]
        # statement of each constraint / allocation (for attribution)
        self.con_stmt = {}
        self.alloc_stmt = {}
        prev = 0
        allocs = list(self._alloc_indices(rec.events))
        pos_of_event = {}
        ai = 0
        for ei, e in enumerate(rec.events):
            if e[0] != "con":
                pos_of_event[ei] = allocs[ai][1]
                ai += 1
        for site, n in tr.marks:
            for ei in range(prev, n):
                e = rec.events[ei]
                if e[0] == "con":
                    self.con_stmt[e[1]] = site
                else:
                    self.alloc_stmt[pos_of_event[ei]] = site
            prev = n
        # occurrence index
        self.occ = {}
        for ci, con in enumerate(self.cons):
            for part in con:
                for k in part:
                    self.occ.setdefault(k, set()).add(ci)
        # boolean-constrained wires: a constraint w * (1 - w) = 0
        self.boolean = set()
        for con in self.cons:
            a, b, c = con
            if len(a) == 1 and not c:
                (k, ca), = a.items()
                if k != 0 and set(b) == {0, k} and (b[0] * ca) % self.p == (-(b[k] * ca)) % self.p:
                    self.boolean.add(k)
        # results
        self.results = []
        order = {nm: i for i, nm in enumerate(tr.gen.origin)}
        entries = []
        for nm in tr.finals:
            val, clc = tr.finals[nm]
            # typed boolean = what the library handed back is a LinCombBool, whatever the plan expected
            t = "B" if nm in getattr(tr, "final_is_bool", ()) else nm[1]
            entries.append((tr.gen.var_site.get((nm, ()), 10 ** 9 + order.get(nm, 0)), nm, t, val, clc,
                            tr.gen.origin.get(nm, {})))
        for (nm, rstack), (val, clc) in getattr(tr, "region_vars", {}).items():
            if any(tr.region_dead.get(r) for r in rstack):
                continue       # values computed under a false guard are not meant to be determined
            entries.append((tr.gen.var_site.get((nm, rstack), 10 ** 9), "%s@%s" % (nm, "/".join("%d%s" % r for r in rstack)),
                            nm[1], val, clc, tr.gen.origin_r.get((nm, rstack), {})))
        for site, nm, t, val, clc, desc in sorted(entries, key=lambda e: (e[0], e[1])):
            self.results.append({"name": nm, "lc": dict(clc), "t": t, "value": val % self.p, "desc": desc})
        self.sites = tr.gen.sites

    @staticmethod
    def _alloc_indices(events):
        npub = npriv = 0
        for e in events:
            if e[0] == "pub":
                npub += 1
                yield e, npub
            elif e[0] == "priv":
                npriv += 1
                yield e, -npriv

    def base_assignment(self):
        a = {0: 1}
        for i, v in enumerate(self.pub):
            a[i + 1] = v % self.p
        for i, v in enumerate(self.priv):
            a[-(i + 1)] = v % self.p
        return a

    def ev(self, lc, a):
        s = 0
        for k, c in lc.items():
            s += c * a[k]
        return s % self.p

    def con_ok(self, ci, a):
        x, y, z = self.cons[ci]
        return (self.ev(x, a) * self.ev(y, a) - self.ev(z, a)) % self.p == 0

    def all_ok(self, a, only=None):
        rng = range(len(self.cons)) if only is None else only
        return all(self.con_ok(ci, a) for ci in rng)

    def unsat(self, a):
        return [ci for ci in range(len(self.cons)) if not self.con_ok(ci, a)]


class Attack:
    """Dishonest assignments derived from one honest trace."""

    def __init__(self, trace, consts=()):
        self.t = trace
        self.base = trace.base_assignment()
        self.p = trace.p
        self.evals = 0
        self.repairs = 0
        self.interesting = sorted({v % self.p for v in consts} |
                                  {self.base[k] for k in trace.operands} | {0, 1, 2})[:12]

    # -- candidates for one wire
    def candidates(self, k, rng, bitlength):
        p = self.p
        v = self.base[k]
        c = [v + 1, v - 1, v + 2, v - 2, 0, 1, 2, p - 1, 1 - v, -v, v * 2, rng.randrange(p)]
        for j in range(0, bitlength + 2):
            c.append(v + (1 << j))
            c.append(v - (1 << j))
        iv = self.interesting
        for x in iv:
            for y in iv:
                if y % p not in (0, 1):
                    yi = inv(y, p)
                    c.append(x * yi)
                    c.append((x - 1) * yi)
        out = []
        seen = {v}
        for x in c:
            x %= p
            if x not in seen:
                seen.add(x)
                out.append(x)
        return out

    # -- forward re-derivation of dependent hints
    def repair(self, a, frozen, max_steps=200, allowed=None):
        t = self.t
        p = self.p
        frozen = set(frozen)
        steps = 0
        while steps < max_steps:
            steps += 1
            bad = None
            for ci in range(len(t.cons)):
                if not t.con_ok(ci, a):
                    bad = ci
                    break
            if bad is None:
                return True
            x, y, z = t.cons[bad]
            unknowns = sorted({k for part in (x, y, z) for k in part
                               if k < 0 and k not in frozen and k not in t.operands
                               and (allowed is None or k in allowed)})
            if not unknowns:
                return False
            fixed = False
            # (1) recomposition: 0 * 0 = linear, several boolean unknowns with power-of-two-like coefficients
            if (not x or not y) and len(unknowns) > 1:
                zunk = [k for k in unknowns if k in z]
                bools = [k for k in zunk if k in t.boolean]
                if bools and len(bools) == len(zunk):
                    fixed = self._redecompose(z, bools, a)
                    if fixed:
                        frozen.update(bools)
            if not fixed:
                # (2) latest-allocated unknown first, if the constraint is linear in it; a wire that carries a
                # booleanity constraint is only given a 0/1 value (anything else could not satisfy the system)
                for u in unknowns:
                    saved = a[u]
                    if self._solve_linear(bad, u, a):
                        if u in t.boolean and a[u] not in (0, 1):
                            a[u] = saved
                            continue
                        frozen.add(u)
                        fixed = True
                        break
            if not fixed:
                return False
            self.repairs += 1
        return False

    def _solve_linear(self, ci, u, a):
        """(A0 + a_u u)(B0 + b_u u) = C0 + c_u u, solvable when not quadratic in u."""
        t = self.t
        p = self.p
        x, y, z = t.cons[ci]
        au, bu, cu = x.get(u, 0), y.get(u, 0), z.get(u, 0)
        if au and bu:
            return False
        saved = a[u]
        a[u] = 0
        A0, B0, C0 = t.ev(x, a), t.ev(y, a), t.ev(z, a)
        # A0*B0 + (au*B0 + bu*A0) u = C0 + cu u
        coef = (au * B0 + bu * A0 - cu) % p
        rhs = (C0 - A0 * B0) % p
        if coef == 0:
            a[u] = saved
            return False
        a[u] = rhs * inv(coef, p) % p
        return True

    def _redecompose(self, z, bools, a):
        """Solve sum(c_k b_k) = -rest for boolean b_k by trying the binary expansion."""
        t = self.t
        p = self.p
        saved = {k: a[k] for k in bools}
        for k in bools:
            a[k] = 0
        rest = t.ev(z, a)          # rest + sum c_k b_k == 0
        target = (-rest) % p
        coefs = sorted(((z[k] % p, k) for k in bools), key=lambda ck: min(ck[0], p - ck[0]), reverse=True)
        # coefficients are +-2^i; greedy from the largest magnitude
        for sign in (1, -1):
            tgt = target if sign == 1 else (-target) % p
            if tgt > (1 << 300):
                continue
            rem = tgt
            assign = {}
            for c, k in coefs:
                mag = c if sign == 1 else (p - c) % p
                if mag > (1 << 300):
                    assign = None
                    break
                if mag <= rem and mag > 0:
                    assign[k] = 1
                    rem -= mag
                else:
                    assign[k] = 0
            if assign is not None and rem == 0:
                a.update(assign)
                return True
        a.update(saved)
        return False

    # -- verdict
    def verdict(self, a):
        """None if some constraint fails; else ('same', None) or ('differs', result)."""
        self.evals += 1
        touched = set()
        for k, v in a.items():
            if v != self.base[k]:
                touched |= self.t.occ.get(k, set())
        if not self.t.all_ok(a, sorted(touched)):
            return None
        for r in self.t.results:
            v = self.t.ev(r["lc"], a)
            if v != r["value"]:
                return ("differs", r, v)
            if r["t"] == "B" and v not in (0, 1):
                return ("nonboolean", r, v)
        return ("same", None, None)

    def try_lie(self, lies, do_repair=True, allowed=None):
        a = dict(self.base)
        a.update(lies)
        if do_repair:
            touched = set()
            for k in lies:
                touched |= self.t.occ.get(k, set())
            if all(self.t.con_ok(ci, a) for ci in touched):
                ok = True
            else:
                ok = self.repair(a, frozen=set(lies), allowed=allowed)
            if not ok:
                return None, a
        return self.verdict(a), a

    def scale(self, v, bitlength):
        """'small' if the value is within a few bits of the configured range, else 'field'."""
        c = min(v % self.p, (-v) % self.p)
        return "small" if c < (1 << (2 * bitlength + 6)) else "field"

    def lie_scale(self, a, bitlength):
        """'field' if any wire that differs from the honest assignment carries a field-scale value."""
        for k, v in a.items():
            if v != self.base[k] and self.scale(v, bitlength) == "field":
                return "field"
        return "small"

    def search(self, rng, bitlength, budget=1500, pairs=True):
        """Yield (lies, verdict, assignment, rederived) for satisfying assignments that move a
        result; one per distinct (result, scale of the new value)."""
        t = self.t
        hints = t.hints
        tried = 0
        seen = set()
        # singles, with and without re-derivation
        for k in hints:
            for cand in self.candidates(k, rng, bitlength):
                tried += 1
                if tried > budget:
                    return
                for rep in (False, True):
                    v, a = self.try_lie({k: cand}, do_repair=rep)
                    if v is not None and v[0] != "same":
                        key = (v[1]["name"], v[0], self.scale(v[2], bitlength), self.lie_scale(a, bitlength))
                        if key not in seen:
                            seen.add(key)
                            yield {k: cand}, v, a, rep
        if not pairs:
            return
        # adjacent pairs with small deltas / boolean flips
        small = [1, self.p - 1, 2]
        for i in range(len(hints)):
            for j in range(i + 1, min(i + 4, len(hints))):
                k1, k2 = hints[i], hints[j]
                for d1 in small:
                    for d2 in small:
                        tried += 1
                        if tried > budget * 2:
                            return
                        lies = {k1: (self.base[k1] + d1) % self.p, k2: (self.base[k2] + d2) % self.p}
                        v, a = self.try_lie(lies, do_repair=True)
                        if v is not None and v[0] != "same":
                            key = (v[1]["name"], v[0], self.scale(v[2], bitlength), self.lie_scale(a, bitlength))
                            if key not in seen:
                                seen.add(key)
                                yield lies, v, a, True


def search_sat(atk, rng, bitlength, budget=400):
    """For an assignment that does not satisfy the system (operands fixed): can the prover find
    hint values that do?  Returns (lies, assignment) or None."""
    t = atk.t
    a = dict(atk.base)
    if not t.unsat(a):
        return {}, a
    if atk.repair(a, frozen=set()):
        if not t.unsat(a):
            return {"rederive": True}, a
    tried = 0
    for k in t.hints:
        for cand in atk.candidates(k, rng, bitlength):
            tried += 1
            if tried > budget:
                return None
            a = dict(atk.base)
            a[k] = cand
            if atk.repair(a, frozen={k}) and not t.unsat(a):
                return {k: cand}, a
    return None


def run_plan(plan, inputs=None, nocheck=False, hook=None):
    """One traced run without invariants; nocheck prepends ignore_errors(True)."""
    p = plan
    if nocheck:
        p = dict(plan)
        p["body"] = [{"s": "set_ie", "value": True}] + list(plan["body"])
    tr = T.TraceRun(p, inputs=inputs, props=(), world_hook=hook)
    tr.run()
    return tr


def shadow_hook(lie_index, lie_value, n_inputs_priv):
    """world_hook installing a lie-shadow on the k-th hint (k counts PrivVal calls after the
    plan's own inputs)."""
    def hook(tr):
        w = tr.w
        rt = w.runtime
        real = rt.PrivVal
        state = {"n": 0}

        def PrivVal(val):
            i = state["n"]
            state["n"] += 1
            if i == lie_index + n_inputs_priv:
                tr.probe("lie_shadow_fired")
                val = lie_value
            return real(val)
        import sys
        for nm, mod in list(sys.modules.items()):
            if nm.startswith("pysnark") and getattr(mod, "PrivVal", None) is real:
                mod.PrivVal = PrivVal
    return hook


def plan_consts(plan):
    out = set()

    def walk(x):
        if isinstance(x, dict):
            if "k" in x and isinstance(x["k"], int) and not isinstance(x["k"], bool):
                out.add(x["k"])
            for v in x.values():
                walk(v)
        elif isinstance(x, list):
            for v in x:
                walk(v)
    walk(plan["body"])
    return out
