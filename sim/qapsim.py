"""qapsim: the qaptools backend as a small distributed system - the tracer, six external
tools and a shared directory - simulated in one process.

  SimFS     in-memory directory.  A writer's data becomes visible to *other* openers only on
            flush(), close(), when the pending text exceeds the writer's buffer capacity, or
            when the last reference to the writer goes away (CPython closes it).  Capacity is a
            per-run fault parameter (0, one line, 64, 8192, unbounded).  Writes can be made to
            fail (OSError) at the n-th write of a file.
  tools     the six executables, replaced by in-process fakes reading SimFS *as visible at call
            time* (the same code as stubs/qaptools-bin/_fake.py, which is used for the real-
            directory cross-check); a tool can be made to fail on its n-th invocation.
  seams     builtins.open (only for pysnark_* file names), and the `os`, `subprocess`, `random`
            globals of the pysnark.qaptools.* modules.
"""
import builtins
import hashlib
import importlib
import io
import os
import random
import sys
import weakref

from . import world as W

sys.path.insert(0, os.path.join(W.STUBS, "qaptools-bin"))
import _fake  # noqa: E402

P = W.BN254
QAP_MODULES = ["backend", "qapsplit", "schedule", "options", "runqapgen", "runqapinput", "runqapgenf",
               "runqapprove", "runqapver"]


class SimWriter(io.TextIOBase):
    def __init__(self, fs, path):
        io.TextIOBase.__init__(self)
        self.fs = fs
        self.path = path
        self.pending = ""
        self.complete = ""
        self.nwrites = 0
        self._closed = False
        fs.visible[path] = ""
        # weak: an unreferenced writer is closed by CPython, exactly like a real file object
        fs.writers.setdefault(path, []).append(weakref.ref(self))

    def writable(self):
        return True

    def write(self, s):
        if self._closed:
            raise ValueError("I/O operation on closed file")
        self.nwrites += 1
        self.fs.nwrites[self.path] = self.fs.nwrites.get(self.path, 0) + 1
        f = self.fs.write_fault
        if f and f[0] == self.path and self.fs.nwrites[self.path] == f[1]:
            self.fs.fault_fired += 1
            raise OSError(28, "No space left on device (injected)", self.path)
        self.pending += s
        self.complete += s
        self.fs.ops += 1
        cap = self.fs.capacity
        if cap is not None:
            if cap == "line":
                if "\n" in self.pending:
                    self.flush()
            elif len(self.pending) > cap:
                self.flush()
        return len(s)

    def flush(self):
        if self.pending:
            self.fs.visible[self.path] = self.fs.visible.get(self.path, "") + self.pending
            self.pending = ""
        self.fs.ops += 1

    def close(self):
        if not self._closed:
            self.flush()
            self._closed = True

    @property
    def closed(self):
        return self._closed

    def __del__(self):
        try:
            self.close()
        except Exception:
            pass


class SimFS:
    def __init__(self, capacity=8192):
        self.visible = {}
        self.writers = {}
        self.capacity = capacity
        self.reads = []       # (reader, path, visible_len, complete_len)
        self.ops = 0
        self.nwrites = {}
        self.write_fault = None
        self.fault_fired = 0
        self.reader = "tracer"

    def complete(self, path):
        """Logical content: what has been written so far, flushed or not."""
        ws = [w() for w in self.writers.get(path, [])]
        ws = [w for w in ws if w is not None and not w.closed]
        if ws:
            return self.visible.get(path, "") + ws[-1].pending
        return self.visible.get(path)

    def exists(self, path):
        return path in self.visible

    def open(self, path, mode="r", *a, **k):
        path = os.path.normpath(path)
        self.ops += 1
        if "w" in mode:
            return SimWriter(self, path)
        if path not in self.visible:
            raise FileNotFoundError(2, "No such file or directory (simulated)", path)
        vis = self.visible[path]
        comp = self.complete(path)
        self.reads.append((self.reader, path, vis, comp))
        return io.StringIO(vis)

    # access object for the fake tools
    def read(self, path):
        return self.open(path).read()

    def snapshot(self):
        return {k: v for k, v in sorted(self.visible.items())}


class FakeOsPath:
    def __init__(self, fs):
        self.fs = fs

    def isfile(self, p):
        return self.fs.exists(os.path.normpath(p))

    exists = isfile

    def __getattr__(self, k):
        return getattr(os.path, k)


class FakeOs:
    def __init__(self, fs):
        self.path = FakeOsPath(fs)

    def __getattr__(self, k):
        return getattr(os, k)


class FakeSubprocess:
    DEVNULL = -3

    def __init__(self, fs):
        self.fs = fs
        self.calls = []          # {"tool", "argv", "rc"}
        self.fail = None         # (tool, n)

    def call(self, argv, stdout=None, stderr=None, **k):
        tool = os.path.basename(argv[0])
        n = sum(1 for c in self.calls if c["tool"] == tool) + 1
        rec = {"tool": tool, "argv": list(argv[1:]), "n": n}
        self.calls.append(rec)
        if self.fail and self.fail[0] == tool and self.fail[1] == n:
            rec["injected_failure"] = True
            rec["rc"] = 1
            return 1
        out = io.StringIO()
        self.fs.reader = tool
        try:
            rc = run_tool(self.fs, tool, argv[1:], out, rec)
        except Exception as e:
            rec["error"] = "%s: %s" % (type(e).__name__, e)
            rc = 1
        finally:
            self.fs.reader = "tracer"
        rec["rc"] = rc
        if isinstance(stdout, SimWriter):
            stdout.write(out.getvalue())
            stdout.flush()     # a real child writes straight to the file descriptor
        return rc


def run_tool(fs, tool, argv, out, rec):
    """The fake tools of stubs/qaptools-bin/_fake.py on SimFS."""
    real_read, real_exists = _fake.read, os.path.exists
    real_open = builtins.open

    def fopen(path, mode="r", *a, **k):
        return fs.open(path, mode)
    saved_stdout = sys.stdout
    _fake.read = lambda p: fs.read(p)
    _fake.os = FakeOs(fs)
    builtins_open_saved = _fake.__dict__.get("open")
    _fake.__dict__["open"] = fopen
    sys.stdout = out
    try:
        return _fake.TOOLS[tool](list(argv), rec)
    finally:
        sys.stdout = saved_stdout
        _fake.read = real_read
        _fake.os = os
        if builtins_open_saved is None:
            _fake.__dict__.pop("open", None)
        else:
            _fake.__dict__["open"] = builtins_open_saved


class QapWorld:
    """Fresh import of pysnark with the qaptools backend over a SimFS."""

    def __init__(self, fs, seed, bitlength=None):
        self.fs = fs
        W.ensure_paths(False)
        W.purge_pysnark()
        os.environ["PYSNARK_BACKEND"] = "qaptools"
        os.environ["QAPTOOLS_BIN"] = os.path.join(W.STUBS, "qaptools-bin")
        for k in ("PYSNARK_KEYDIR", "PYSNARK_PROOFDIR", "QAPTOOLS_DEBUG"):
            os.environ.pop(k, None)
        import atexit
        real_register = atexit.register
        saved = (sys.exit, sys.excepthook)
        self.real_open = builtins.open
        rnd = random.Random(seed)
        self.rnd = rnd

        def sim_open(path, mode="r", *a, **k):
            if isinstance(path, str) and os.path.basename(path).startswith("pysnark_"):
                return fs.open(path, mode)
            return self.real_open(path, mode, *a, **k)
        builtins.open = sim_open
        atexit.register = lambda f, *a, **k: f
        try:
            # SystemRandom must be replaced before the backend module draws from it at import
            import random as _r
            real_sr = _r.SystemRandom
            _r.SystemRandom = lambda *a: rnd
            try:
                self.runtime = importlib.import_module("pysnark.runtime")
            finally:
                _r.SystemRandom = real_sr
            self.boolean = importlib.import_module("pysnark.boolean")
            self.branching = importlib.import_module("pysnark.branching")
            self.fixedpoint = importlib.import_module("pysnark.fixedpoint")
            self.fixedpoint.resolution = 2
        finally:
            atexit.register = real_register
            sys.exit, sys.excepthook = saved
        self.backend = self.runtime.backend
        if self.runtime.backend_name != "qaptools":
            raise W.HarnessError("qaptools backend was not selected: %r" % self.runtime.backend_name)
        self.sub = FakeSubprocess(fs)
        fos = FakeOs(fs)
        for m in QAP_MODULES:
            mod = sys.modules.get("pysnark.qaptools." + m)
            if mod is None:
                continue
            if hasattr(mod, "os"):
                mod.os = fos
            if hasattr(mod, "subprocess"):
                mod.subprocess = self.sub
            mod.__dict__["open"] = sim_open
        self.backend.random = rnd
        if bitlength:
            self.runtime.bitlength = bitlength
        # seam log: equations as emitted (independent of the file)
        self.emitted = []
        real_add = self.backend.add_constraint
        real_pub = self.backend.pubval

        def add_constraint(v, w, y):
            self.emitted.append(("eq", self.backend.vc_ctx, str(v), str(w), str(y)))
            return real_add(v, w, y)

        def pubval(val):
            r = real_pub(val)
            self.emitted.append(("pub", self.backend.vc_ctx, r.sig[0][1], val))
            return r
        self.backend.add_constraint = add_constraint
        self.backend.pubval = pubval

    def close(self):
        builtins.open = self.real_open
        b = self.backend
        for nm in ("qape", "qapv", "qapvo"):
            f = getattr(b, nm, None)
            if f is not None:
                try:
                    f.close()
                except Exception:
                    pass


# ---------------------------------------------------------------------------------------
# independent reading of the equation grammar

def parse_terms(toks, where):
    if len(toks) % 2:
        raise ValueError("odd number of tokens in a term list: %r (%s)" % (toks, where))
    out = []
    for i in range(0, len(toks), 2):
        c = int(toks[i])
        out.append((c, toks[i + 1]))
    return out


def parse_eqs(text):
    items = []
    for ln in text.splitlines():
        s = ln.strip()
        if not s or s.startswith("#"):
            continue
        toks = s.split()
        if toks[0] == "[function]":
            items.append(("function", toks[1], toks[2]))
        elif toks[0] == "[ioblock]":
            items.append(("ioblock", toks[1], toks[2], toks[3:]))
        elif toks[0] == "[external]":
            items.append(("external", toks[1], toks[2], toks[3]))
        elif toks[0] == "[glue]":
            items.append(("glue", toks[1], toks[2], toks[3], toks[4]))
        else:
            if toks[-1] == ".":
                toks = toks[:-1]
            star, eq = toks.index("*"), toks.index("=")
            items.append(("eq", parse_terms(toks[:star], s), parse_terms(toks[star + 1:eq], s),
                          parse_terms(toks[eq + 1:], s), s))
    return items


def parse_values(text):
    vals = {}
    for ln in text.splitlines():
        if not ln.strip() or ln.startswith("#"):
            continue
        nm, _, v = ln.partition(":")
        vals[nm.strip()] = int(v.strip())
    return vals


def ev_terms(ts, vals):
    s = 0
    for c, nm in ts:
        if nm.endswith("/one") or nm == "one":
            s += c
        else:
            s += c * vals[nm]
    return s % P


def ctx_of_terms(*lists):
    ctxs = set()
    for ts in lists:
        for c, nm in ts:
            if "/" in nm:
                ctxs.add(nm.split("/")[0])
    return ctxs


def norm_line(line, ctx):
    return " ".join(t[len(ctx) + 1:] if t.startswith(ctx + "/") else t for t in line.split(" "))


def expected_function_files(eqs_text):
    """My own split of pysnark_eqs: {function name: [sorted lines]} (first call of each name) and
    {call: (function name, digest)}."""
    calls = {}
    per_ctx = {}
    order = []
    for ln in eqs_text.splitlines():
        s = ln.strip()
        if not s or s.startswith("#"):
            continue
        toks = s.split(" ")
        if toks[0] == "[function]":
            calls[toks[2]] = toks[1]
            order.append(toks[2])
            per_ctx.setdefault(toks[2], [])
        elif toks[0] == "[ioblock]":
            ctx = toks[1]
            per_ctx.setdefault(ctx, []).append("[ioblock] " + toks[2] + " " + " ".join(
                t[len(ctx) + 1:] if t.startswith(ctx + "/") else t for t in toks[3:]))
        elif toks[0] in ("[external]", "[glue]"):
            continue
        else:
            ctxs = {t.split("/")[0] for t in toks if "/" in t}
            if len(ctxs) != 1:
                per_ctx.setdefault("?mixed", []).append(s)
                continue
            ctx = ctxs.pop()
            per_ctx.setdefault(ctx, []).append(" ".join(t[len(ctx) + 1:] if t.startswith(ctx + "/") else t
                                                        for t in toks))
    out = {}
    for call in order:
        lines = sorted(per_ctx.get(call, []))
        dg = hashlib.md5("".join(lines).encode()).hexdigest()[:10]
        out[call] = (calls[call], lines, dg)
    return out, per_ctx
