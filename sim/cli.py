import os
import sys
import tempfile


def main(argv):
    if len(argv) < 2:
        print("usage: vcheck <check> quick|thorough | replay <file> | selftest determinism|sensitivity")
        return 2
    # never run with cwd inside /repo or /verif: backends write artefacts into cwd
    # BranchingValues.__del__ raises when a run was aborted inside a block: that is reported by CPython through the
    # unraisable hook (noise on stderr, nothing a check looks at)
    sys.unraisablehook = lambda *a: None
    scratch = tempfile.mkdtemp(prefix="vcheck-")
    os.chdir(scratch)
    try:
        from . import engine
        from . import checks  # noqa: F401
        if argv[0] == "replay":
            return engine.replay(os.path.join(engine.VERIF, argv[1]) if not os.path.isabs(argv[1]) else argv[1])
        if argv[0] == "digests":
            from . import selftest
            return selftest.digests(argv[1], argv[2])
        if argv[0] == "selftest":
            from . import selftest
            return selftest.main(argv[1:])
        return engine.run_check(argv[0], argv[1])
    finally:
        import shutil
        os.chdir("/")
        shutil.rmtree(scratch, ignore_errors=True)


if __name__ == "__main__":
    code = main(sys.argv[1:])
    sys.stdout.flush()
    sys.exit(code)
