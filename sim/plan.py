"""Plans: programs over the pysnark API as JSON data, a seeded generator for them, and a
code generator that turns one plan into Python source for the traced run.

Types: I = secret integer (runtime.LinComb), B = secret boolean (LinCombBool),
F = secret fixed point (LinCombFxp).  Every expression node carries its result type in
"t".  Variable references are (type, n) and resolve to live variable n mod #live of that
type, so that any sub-plan obtained by deleting statements is still executable.
"""
import json

# ---------------------------------------------------------------------------------------
# expression table

ARITH = ["+", "-", "*"]
DIVS = ["/", "//", "%"]
BITS = ["&", "|", "^"]
CMPS = ["<", "<=", "==", "!=", ">", ">="]
SHIFTS = ["<<", ">>"]

ASSERTS_CMP = ["lt", "le", "eq", "ne", "gt", "ge"]

DEFAULT_WEIGHTS = {
    # statement kinds
    "let": 10, "assert": 3, "guarded": 3, "ite_call": 0, "set_ie": 0.4, "val": 1, "set_res": 0, "set_bl": 0,
    "array": 0, "aset": 0, "block_if": 0, "block_while": 0, "block_for": 0,
    "snark": 0,
    # expression families (for let)
    "arith": 6, "div": 3, "bits": 1.5, "cmp": 4, "shift": 0.7, "pow": 0.7, "unary": 2,
    "boolop": 3, "check": 2, "ite": 2, "tobits": 1, "tobool": 0.7, "fxp": 2, "aget": 0,
    "hash": 0,
}


def ref(t, n):
    return {"ref": n, "t": t}


def const(v, t="I"):
    return {"k": v, "t": t}


class Gen:
    """Seeded plan generator.  All randomness comes from the rng passed in."""

    def __init__(self, rng, cfg, weights=None):
        self.r = rng
        self.cfg = cfg
        self.w = dict(DEFAULT_WEIGHTS)
        if weights:
            self.w.update(weights)
        self.b = cfg["bitlength"]
        self.counts = {"I": 0, "B": 0, "F": 0, "A": 0}
        self.depth = 0
        self.max_depth = cfg.get("max_nesting", 2)
        self.fxp = cfg.get("fxp", True)
        self.n_helpers = 0

    # -- values ---------------------------------------------------------------------
    def small_int(self):
        r = self.r
        b = self.b
        bias = self.cfg.get("value_bias", "mixed")
        u = r.random()
        if bias == "tiny" or u < 0.45:
            return r.choice([0, 1, 1, 2, 2, 3, -1, -2, 4, 5, 6, 7])
        if u < 0.70:
            return r.choice([(1 << (b - 1)) - 1, 1 << (b - 1), -(1 << (b - 1)), (1 << b) - 1,
                             1 << b, -(1 << b), (1 << b) + 1, (1 << (b - 1)) + 1])
        if bias == "field" and u < 0.80:
            from .world import PRIMES
            p = PRIMES.get(self.cfg["backend"], PRIMES["snarkjs"])
            return r.choice([p - 1, p, p + 1, -p, (1 << 256) + 5, -(1 << 256) - 3, p * 2 + 1,
                             (1 << 255), 1 - p])
        if bias in ("mixed", "field") and u < 0.86:
            # wider than a float's mantissa and far below the field order, with small factors
            return r.choice([(1 << 60) + 2, 3 << 70, -(1 << 64), 6 * 10 ** 18 + 6, 1 << 100, 15 << 55, -(1 << 70) - 7,
                             (3 * 10 ** 9 + 3) * (4 * 10 ** 9 + 1)])
        lim = 1 << max(1, min(b, 10))
        return r.randint(-lim // 2, lim)

    def small_const(self, positive=False, nonzero=False):
        v = self.r.choice([0, 1, 2, 3, 4, 5, 7, 8, -1, -2, -3])
        if positive:
            v = abs(v)
        if nonzero and v == 0:
            v = 1 + self.r.randrange(3)
        return v

    def fxp_const(self):
        return self.r.choice([0.5, 1.5, 2.0, -0.5, 0.25, 3.0, 1.0, -2.5, 0.75])

    # -- references -------------------------------------------------------------------
    def any_ref(self, t):
        # n is arbitrary; resolution is modulo the number of live variables
        return ref(t, self.r.randrange(0, 64))

    def operand(self, t, depth, allow_const=True):
        """An operand of type t: a variable, a nested expression or (I only) a constant."""
        r = self.r
        if depth <= 0 or r.random() < 0.6:
            return self.any_ref(t)
        return self.expr(t, depth - 1)

    def int_or_const(self, depth):
        if self.r.random() < 0.3:
            return const(self.small_const())
        return self.operand("I", depth)

    # -- expressions ---------------------------------------------------------------------
    def pick(self, table):
        items = [(k, self.w.get(k, 0)) for k in table if self.w.get(k, 0) > 0]
        tot = sum(w for _, w in items)
        if tot <= 0:
            return None
        x = self.r.random() * tot
        for k, w in items:
            x -= w
            if x <= 0:
                return k
        return items[-1][0]

    def expr(self, t, depth=1):
        if t == "I":
            return self.expr_I(depth)
        if t == "B":
            return self.expr_B(depth)
        return self.expr_F(depth)

    def binary_I(self, op, depth):
        """I-typed binary with the three operand-kind combinations."""
        r = self.r
        u = r.random()
        if u < 0.5:
            a, b = self.operand("I", depth), self.operand("I", depth)
        elif u < 0.78:
            a, b = self.operand("I", depth), const(self.small_const())
        else:
            a, b = const(self.small_const()), self.operand("I", depth)
        return {"op": op, "a": a, "b": b, "t": "I"}

    def expr_I(self, depth):
        r = self.r
        fam = self.pick(["arith", "div", "bits", "shift", "pow", "unary", "ite", "tobits", "aget",
                         "hash"]) or "arith"
        if fam == "arith":
            op = r.choice(ARITH)
            if r.random() < 0.15:
                # boolean operands in integer arithmetic
                a = self.operand("B", depth)
                b = self.operand(r.choice(["I", "B"]), depth)
                if r.random() < 0.5:
                    a, b = b, a
                return {"op": op, "a": a, "b": b, "t": "I"}
            return self.binary_I(op, depth)
        if fam == "div":
            e = self.binary_I(r.choice(DIVS), depth)
            if "k" in e["b"] and (r.random() < 0.9 or self.cfg.get("no_const_zero_divisor")):
                e["b"] = const(self.small_const(nonzero=True))
            if e["op"] in ("//", "%") and r.random() < 0.15:
                # the same quotient / remainder through the divmod() builtin (incl. the reflected form)
                e["via_divmod"] = True
            return e
        if fam == "bits":
            return self.binary_I(r.choice(BITS), depth)
        if fam == "shift":
            op = r.choice(SHIFTS)
            if r.random() < 0.7:
                # shift amounts below the bitlength: `x >> k` with k >= bitlength returns the plain int 0,
                # which would make an integer-typed plan variable a constant
                return {"op": op, "a": self.operand("I", depth), "b": const(r.randrange(0, min(4, self.b))), "t": "I"}
            return {"op": op, "a": self.int_or_const(depth), "b": self.operand("I", depth), "t": "I"}
        if fam == "pow":
            if r.random() < 0.6:
                return {"op": "**", "a": self.operand("I", depth), "b": const(r.randrange(0, 4)), "t": "I"}
            return {"op": "**", "a": self.int_or_const(depth), "b": self.operand("I", depth), "t": "I"}
        if fam == "unary":
            u = r.choice(["neg", "abs", "invert", "pos", "negb"])
            if u == "negb":
                return {"un": "neg", "a": self.operand("B", depth), "t": "I"}
            return {"un": u, "a": self.operand("I", depth), "t": "I"}
        if fam == "ite" and r.random() < 0.2:
            # the method forms: cond.if_else(a, b) on a boolean, and on a raw 0/1 integer
            return {"call": "if_else_method", "args": [self.operand("B", depth), self.operand("I", depth),
                                                       self.int_or_const(depth)], "raw": r.random() < 0.3, "t": "I"}
        if fam == "ite":
            u = r.random()
            if u < 0.15:
                tv, fv = self.operand("B", depth), self.operand("B", depth)
            elif u < 0.3:
                # branches of different secret types: a boolean and a (raw, undeclared) integer
                tv, fv = self.operand("B", depth), self.operand("I", depth)
                if r.random() < 0.5:
                    tv, fv = fv, tv
            else:
                tv = self.int_or_const(depth)
                fv = self.int_or_const(depth)
            if "k" in tv and "k" in fv:
                fv = self.operand("I", depth)
            return {"call": "ite", "args": [self.operand("B", depth), tv, fv], "t": "I"}
        if fam == "tobits" and r.random() < 0.2:
            # pack / unpack of a secret through a bounded-integer packer (pack.py on top of to_bits/from_bits)
            return {"call": "pack_roundtrip", "args": [self.operand("I", depth)],
                    "m": r.choice([2, 3, 4, 5, 8, 1 << max(1, self.b - 1), (1 << self.b) + 1]), "t": "I"}
        if fam == "tobits":
            if r.random() < 0.25:
                # recomposition of arbitrary secret integers (the classmethod does not require 0/1 entries)
                return {"call": "from_bits_raw", "args": [self.operand(r.choice(["I", "B"]), depth),
                                                          self.operand(r.choice(["I", "B"]), depth),
                                                          self.operand("I", depth)], "t": "I"}
            n = None if r.random() < 0.6 else r.randrange(1, self.b + 3)
            return {"call": "bits_roundtrip", "args": [self.operand("I", depth)], "n": n, "t": "I"}
        if fam == "aget":
            return {"call": "aget", "arr": r.randrange(0, 8), "ix": self.int_or_const(depth), "t": "I"}
        if fam == "hash":
            return {"call": "poseidon", "args": [self.operand("I", 0) for _ in range(r.randrange(0, 3))],
                    "t": "I"}
        return self.binary_I("+", depth)

    def expr_B(self, depth):
        r = self.r
        # note: if_then_else on boolean-typed branches returns an integer-typed LinComb, so "ite" is
        # not a boolean-typed expression
        fam = self.pick(["cmp", "boolop", "check", "tobool"]) or "cmp"
        if fam == "cmp":
            op = r.choice(CMPS)
            u = r.random()
            if u < 0.08:
                return {"op": op, "a": self.operand("B", depth),
                        "b": self.operand("B" if r.random() < 0.7 else "I", depth), "t": "B"}
            if self.fxp and u < 0.16:
                return {"op": op, "a": self.operand("F", depth), "b": self.operand("F", depth), "t": "B"}
            e = self.binary_I(op, depth)
            e["t"] = "B"
            return e
        if fam == "boolop":
            op = r.choice(["&", "|", "^", "not"])
            if op == "not":
                return {"un": "not", "a": self.operand("B", depth), "t": "B"}
            u = r.random()
            if u < 0.2:
                return {"op": op, "a": self.operand("B", depth), "b": const(r.randrange(0, 2)), "t": "B"}
            if u < 0.35:
                # a raw secret integer as the other operand: the library declares it boolean on the fly
                return {"op": op, "a": self.operand("B", depth), "b": self.operand("I", depth), "t": "B"}
            return {"op": op, "a": self.operand("B", depth), "b": self.operand("B", depth), "t": "B"}
        if fam == "check":
            c = r.choice(["check_zero", "check_nonzero", "check_positive"])
            u = r.random()
            if u < 0.1:
                return {"call": "bool_pow", "args": [self.operand("B", depth)], "pw": r.randrange(0, 4), "t": "B"}
            if u < 0.25 and self.fxp:
                return {"call": c, "args": [self.operand("F", depth)], "t": "B"}
            if u < 0.35 and c != "check_nonzero":
                return {"call": c, "args": [self.operand("B", depth)], "t": "B"}
            return {"call": c, "args": [self.operand("I", depth)], "t": "B"}
        if fam == "tobool":
            return {"call": "tobool", "args": [self.operand("I", depth)], "t": "B"}
        if fam == "ite":
            return {"call": "ite", "args": [self.operand("B", depth), self.operand("B", depth),
                                            self.operand("B", depth)], "t": "B"}
        return {"un": "not", "a": self.operand("B", depth), "t": "B"}

    def expr_F(self, depth):
        r = self.r
        u = r.random()
        if u < 0.12:
            return {"call": "tofxp", "args": [self.operand("I", depth)], "t": "F"}
        if u < 0.2:
            return {"un": r.choice(["neg", "abs"]), "a": self.operand("F", depth), "t": "F"}
        if u < 0.27:
            return {"call": "ite", "args": [self.operand("B", depth), self.operand("F", depth),
                                            self.operand("F", depth)], "t": "F"}
        if u < 0.32:
            return {"op": "**", "a": self.operand("F", depth), "b": const(r.randrange(0, 3)), "t": "F"}
        if u < 0.36:
            return {"op": r.choice(["<<", ">>"]), "a": self.operand("F", depth), "b": const(r.randrange(0, 3)), "t": "F"}
        op = r.choice(["+", "-", "*", "+", "-", "*", "/", "//", "%"])
        a = self.operand("F", depth)
        k = r.random()
        if k < 0.5:
            b = self.operand("F", depth)
        elif k < 0.65:
            b = self.operand("I", depth)
        elif k < 0.8:
            b = const(self.small_const(nonzero=op in DIVS))
        else:
            b = const(self.fxp_const(), "F")
        if r.random() < 0.25 and op in ("+", "-", "*"):
            a, b = b, a
        elif op in DIVS and "k" in b and r.random() < 0.3:
            # reflected division: plain constant on the left, fixed-point divisor
            a, b = b, a
        return {"op": op, "a": a, "b": b, "t": "F"}

    # -- statements ----------------------------------------------------------------------
    def let(self):
        r = self.r
        tw = [("I", 5), ("B", 3)] + ([("F", self.w.get("fxp", 0))] if self.fxp else [])
        tot = sum(w for _, w in tw)
        x = r.random() * tot
        t = "I"
        for tt, w in tw:
            x -= w
            if x <= 0:
                t = tt
                break
        e = self.expr(t, 0)   # flat three-address code: operands are variables or constants
        self.counts[t] += 1
        return {"s": "let", "e": e}

    def assertion(self):
        r = self.r
        u = r.random()
        if u < 0.55:
            kind = r.choice(ASSERTS_CMP)
            tt = "I" if r.random() < 0.8 or not self.fxp else "F"
            if r.random() < 0.1:
                tt = "B"
            a = self.operand(tt, 0)
            if tt == "I" and r.random() < 0.4:
                b = const(self.small_const())
            else:
                b = self.operand(tt, 0)
            return {"s": "assert", "kind": kind, "args": [a, b]}
        if u < 0.7:
            return {"s": "assert", "kind": r.choice(["zero", "nonzero"]), "args": [self.operand("I", 0)]}
        if u < 0.88:
            n = None if r.random() < 0.5 else r.randrange(1, self.b + 3)
            return {"s": "assert", "kind": "positive", "args": [self.operand("I", 0)], "bits": n}
        lo = self.small_const()
        return {"s": "assert", "kind": "range", "args": [self.operand("I", 0), const(lo),
                                                         const(lo + r.randrange(0, 9))]}

    def cond_expr(self):
        """A guard condition: a raw 0/1 secret integer (type I) or a boolean-typed value."""
        r = self.r
        if r.random() < self.cfg.get("p_bool_cond", 0.5):
            return self.operand("B", 0)
        return {"call": "rawcond", "args": [self.operand("B", 0)], "t": "I"}

    def body(self, nmax):
        n = self.r.randrange(1, nmax + 1)
        return [self.stmt() for _ in range(n)]

    def scoped_body(self, nmax):
        saved = dict(self.counts)
        self.depth += 1
        b = self.body(nmax)
        self.depth -= 1
        self.counts = saved
        return b

    def stmt(self):
        r = self.r
        kinds = ["let", "assert", "val", "array", "snark"]
        if self.depth == 0 or not self.cfg.get("no_aset_in_regions"):
            kinds.append("aset")
        if self.depth == 0 or not self.cfg.get("set_ie_top_only"):
            kinds.append("set_ie")
        if self.depth == 0:
            kinds += ["set_res", "set_bl"]
        if self.depth < self.max_depth:
            kinds += ["guarded", "ite_call", "block_if", "block_while", "block_for"]
        if self.depth == 0 and self.max_depth >= 1:
            kinds.append("def_helper")
        if self.n_helpers:
            kinds.append("call_helper")
        k = self.pick(kinds) or "let"
        s = getattr(self, "mk_" + k)()
        if r.random() < self.cfg.get("p_try", 0.7):
            s["try"] = True
        return s

    def mk_let(self):
        return self.let()

    def mk_assert(self):
        return self.assertion()

    def mk_val(self):
        t = self.r.choice(["I", "I", "B", "F"] if self.fxp else ["I", "I", "B"])
        return {"s": "val", "a": self.any_ref(t)}

    def mk_set_ie(self):
        return {"s": "set_ie", "value": self.r.random() < 0.6}

    def mk_set_res(self):
        return {"s": "set_res", "value": self.r.choice([0, 1, 2, 3, 4, 8])}

    def mk_set_bl(self):
        self.b = self.r.choice([3, 4, 5, 6, 8])
        return {"s": "set_bl", "value": self.b}

    def mk_guarded(self):
        cond = self.cond_expr()
        if self.r.random() < self.cfg.get("p_nonbool_cond", 0):
            # a raw secret integer of any value as the condition: with the checks on, entering the region is refused
            cond = self.operand("I", 0)
        elif self.r.random() < self.cfg.get("p_plain_cond", 0):
            # a PUBLIC condition (generic code called with a plain value): 1 is transparent, 0 is refused
            cond = {"k": self.r.choice(self.cfg.get("plain_conds", [1, 1, 0])), "t": "I"}
        st = {"s": "guarded", "cond": cond}
        if self.depth >= 1 and self.r.random() < 0.2:
            st["reuse_outer"] = True      # nested region entered through the enclosing region's decorator object
        st["body"] = self.scoped_body(3)
        return st

    def mk_def_helper(self):
        # a function decorated once with guarded(cond) (where it is defined) and called later, from anywhere
        cond = self.cond_expr()
        st = {"s": "def_helper", "cond": cond, "hid": self.n_helpers}
        st["body"] = self.scoped_body(3)
        self.n_helpers += 1
        return st

    def mk_call_helper(self):
        return {"s": "call_helper", "hid": self.r.randrange(self.n_helpers)}

    def mk_ite_call(self):
        cond = self.operand("B", 0)
        tb = self.scoped_body(2)
        fb = self.scoped_body(2)
        self.counts["I"] += 1
        return {"s": "ite_call", "cond": cond, "true": tb, "false": fb,
                "tret": self.any_ref("I"), "fret": self.any_ref("I")}

    def mk_array(self):
        r = self.r
        n = r.randrange(1, 5)
        secret = r.random() < 0.6
        els = [self.operand("I", 0) if secret and r.random() < 0.8 else const(self.small_const())
               for _ in range(n)]
        self.counts["A"] += 1
        return {"s": "array", "els": els}

    def mk_aset(self):
        return {"s": "aset", "arr": self.r.randrange(0, 8), "ix": self.int_or_const(0),
                "value": self.int_or_const(0)}

    def mk_block_if(self):
        raise NotImplementedError

    mk_block_while = mk_block_for = mk_snark = mk_block_if


def gen_inputs(rng, gen, n_lo=2, n_hi=5):
    cfg = gen.cfg
    n = rng.randrange(n_lo, n_hi + 1)
    inputs = []
    for i in range(n):
        kind = "priv" if rng.random() < 0.7 else "pub"
        u = rng.random()
        if i == 0:
            t = "I"
        elif i == 1:
            t = "B"
        elif i == 2 and gen.fxp:
            t = "F"
        else:
            t = "I" if u < 0.6 else ("B" if u < 0.8 or not gen.fxp else "F")
        if t == "I":
            v = gen.small_int()
        elif t == "B":
            v = rng.randrange(0, 2)
        else:
            v = rng.choice([0.5, 1.5, -2.25, 3.0, 0.0, 1.0, -1.0, 7.5, 0.125])
        inputs.append({"kind": kind, "t": t, "v": v})
        gen.counts[t] += 1
    return inputs


def generate(rng, cfg, weights=None, n_stmts=None):
    g = Gen(rng, cfg, weights)
    inputs = gen_inputs(rng, g)
    if n_stmts is None:
        n_stmts = rng.randrange(1, 4) if rng.random() < 0.5 else rng.randrange(4, 13)
    body = [g.stmt() for _ in range(n_stmts)]
    return {"cfg": cfg, "inputs": inputs, "body": body}


# ---------------------------------------------------------------------------------------
# code generation

class CodeGen:
    """plan -> Python source (traced mode).

    Generated code talks to the simulator through four callbacks in its globals:
      __step__(site, locals(), model)   quiescent point between statements
      __enter__(rid) / __leave__(rid)   region bookkeeping for the guard snapshot model
      __caught__(site, exc)             a try-wrapped statement raised
    """

    def __init__(self, plan, mode="traced"):
        self.plan = plan
        self.mode = mode
        self.lines = []
        self.ind = 0
        self.counts = {"I": 0, "B": 0, "F": 0, "A": 0}
        self.site = 0
        self.rid = 0
        self.sites = {}       # site id -> static info
        self.regions = []     # stack of model variable names
        self.region_ids = []  # stack of (rid, branch) of the enclosing regions
        self.var_site = {}    # (variable name, region stack) -> site of the statement that defines it
        self.origin_r = {}    # (variable name, region stack) -> description of that statement
        self.deco_stack = []  # decorator objects (variable name, condition variable) of the enclosing guarded regions
        self.api_lines = {}   # source line number -> block nesting depth of a block-API call
        self.block_depth = 0
        self.fn = 0
        self.origin = {}      # variable name -> description of the statement that made it
        self.local_blocks = 0
        self.helpers = {}     # helper id -> (region id, wrapped-function variable, holder of the caller's model)

    # -- emit helpers
    def emit(self, s):
        self.lines.append("    " * self.ind + s)
        if self.mode != "native" and ("_if(" in s or "_elif(" in s or "_else()" in s or "_endif()" in s or "_while("
                                      in s or "_endwhile()" in s or "_range(" in s or "_endfor()" in s
                                      or "_breakif(" in s):
            self.api_lines[len(self.lines)] = self.block_depth

    def new_site(self, info):
        self.site += 1
        info["rstack"] = tuple(self.region_ids)
        self.sites[self.site] = info
        return self.site

    def step(self, info):
        k = self.new_site(info)
        if info.get("var"):
            key = (info["var"], tuple(self.region_ids))
            self.var_site[key] = k
            self.origin_r[key] = self.origin.get(info["var"], {})
        self.emit("__step__(%d, locals(), %s)" % (k, self.model_expr()))

    def model_expr(self):
        return "(" + "".join(m + ", " for m in self.regions) + ")"

    def var(self, t, n):
        c = self.counts[t]
        if c == 0:
            return {"I": "PrivVal(0)", "B": "PrivValBool(0)", "F": "PrivValFxp(0.0)", "A": "Array([0])"}[t]     # (allocation-free: an inline allocation would look like a hint wire)
        return "v%s%d" % (t, n % c)

    def new_var(self, t):
        nm = "v%s%d" % (t, self.counts[t])
        self.counts[t] += 1
        return nm

    # -- expressions
    def ex(self, e):
        if "ref" in e:
            return self.var(e["t"], e["ref"])
        if "k" in e:
            return repr(e["k"])
        if "op" in e:
            a, b = self.ex(e["a"]), self.ex(e["b"])
            if e.get("via_divmod"):
                return "divmod(%s, %s)[%d]" % (a, b, 0 if e["op"] == "//" else 1)
            return "(%s %s %s)" % (a, e["op"], b)
        if "un" in e:
            a = self.ex(e["a"])
            return {"neg": "(-%s)", "abs": "abs(%s)", "invert": "(~%s)", "pos": "(+%s)",
                    "not": "(~%s)"}[e["un"]] % a
        c = e["call"]
        if c == "ite":
            a = [self.ex(x) for x in e["args"]]
            if e["t"] == "I" and e["args"][1].get("t") == "B" and e["args"][2].get("t") == "B":
                # if_then_else(c, x, x) returns x itself; "+ 0" keeps the result integer-typed
                return "(if_then_else(%s, %s, %s) + 0)" % tuple(a)
            return "if_then_else(%s, %s, %s)" % tuple(a)
        if c in ("check_zero", "check_nonzero", "check_positive"):
            return "%s.%s()" % (self.ex(e["args"][0]), c)
        if c == "tobool":
            return "LinCombBool(%s)" % self.ex(e["args"][0])
        if c == "tofxp":
            return "LinCombFxp(%s)" % self.ex(e["args"][0])
        if c == "rawcond":
            # a raw 0/1 secret integer carrying a boolean's value
            return "(%s + 0)" % self.ex(e["args"][0])
        if c == "pack_roundtrip":
            # (the packer is a schema object built once at the top of the program, see generate())
            return "(_pkm%d.unpack(_pkm%d.pack(%s), 0) + __zero__)" % (e["m"], e["m"], self.ex(e["args"][0]))
        if c == "if_else_method":
            a = [self.ex(x) for x in e["args"]]
            if e.get("raw"):
                return "(%s + 0).if_else(%s, %s)" % tuple(a)
            return "(%s.if_else(%s, %s) + 0)" % tuple(a)
        if c == "bool_pow":
            return "(%s ** %d)" % (self.ex(e["args"][0]), e["pw"])
        if c == "from_bits_raw":
            return "(LinComb.from_bits([%s]) + __zero__)" % ", ".join(self.ex(x) for x in e["args"])
        if c == "bits_roundtrip":
            n = e.get("n")
            return "LinComb.from_bits(%s.to_bits(%s))" % (self.ex(e["args"][0]), "" if n is None else repr(n))
        if c == "aget":
            ix = e["ix"]
            # "+ __zero__" (a constant-zero LinComb, no allocation): an array of constants read at a public
            # index gives a plain int, which must not end up in an integer-typed (secret) plan variable
            if isinstance(ix, list):
                if e.get("chained"):
                    return "(" + self.var("A", e["arr"]) + "".join("[%s]" % self.ex(i) for i in ix) + " + __zero__)"
                return "(%s[%s] + __zero__)" % (self.var("A", e["arr"]), ", ".join(self.ex(i) for i in ix))
            return "(%s[%s] + __zero__)" % (self.var("A", e["arr"]), self.ex(ix))
        if c == "poseidon":
            return "__poseidon__([%s])[0]" % ", ".join(self.ex(x) for x in e["args"])
        raise ValueError("unknown call " + c)

    def describe(self, e):
        """Smallest description of an expression node for violation sites."""
        def kind(x):
            if "k" in x:
                return "k" if x.get("t") != "F" else "kf"
            return x["t"]
        if "op" in e:
            return {"op": e["op"], "kinds": kind(e["a"]) + "," + kind(e["b"]), "t": e["t"]}
        if "un" in e:
            return {"op": e["un"], "kinds": kind(e["a"]), "t": e["t"]}
        if "call" in e:
            args = e.get("args", [])
            d = {"op": e["call"], "kinds": ",".join(kind(a) for a in args), "t": e["t"]}
            if e.get("n") is not None:
                d["bits"] = "explicit"
            return d
        if "ref" in e:
            return {"op": "ref", "t": e["t"]}
        return {"op": "const"}

    # -- statements
    def wrap_try(self, s, emit_body, fallback=None):
        if s.get("try"):
            k = self.new_site({"kind": "caught", "stmt": s.get("s"), "desc": self.stmt_desc(s)})
            self.emit("try:")
            self.ind += 1
            emit_body()
            self.ind -= 1
            self.emit("except __CAUGHT__ as __e:")
            self.ind += 1
            self.emit("__caught__(%d, __e, %s)" % (k, self.model_expr()))
            if fallback:
                self.emit(fallback)
            self.ind -= 1
        else:
            emit_body()

    def stmt_desc(self, s):
        k = s.get("s")
        if k == "let":
            return self.describe(s["e"])
        if k == "assert":
            return {"op": "assert_" + s["kind"]}
        return {"op": k}

    def st(self, s):
        getattr(self, "st_" + s["s"])(s)

    def st_let(self, s):
        e = s["e"]
        t = e["t"]
        src = self.ex(e)
        fb = self.var(t, 0)
        nm = self.new_var(t)
        self.origin[nm] = self.describe(e)
        self.wrap_try(s, lambda: self.emit("%s = %s" % (nm, src)), "%s = %s" % (nm, fb))
        self.step({"kind": "let", "var": nm, "desc": self.origin[nm]})

    def st_assert(self, s):
        k = s["kind"]
        a = [self.ex(x) for x in s["args"]]
        if k in ASSERTS_CMP:
            src = "%s.assert_%s(%s)" % (a[0], k, a[1])
        elif k in ("zero", "nonzero"):
            src = "%s.assert_%s()" % (a[0], k)
        elif k == "positive":
            n = s.get("bits")
            src = "%s.assert_positive(%s)" % (a[0], "" if n is None else repr(n))
        elif k == "range":
            src = "%s.assert_range(%s, %s)" % (a[0], a[1], a[2])
        else:
            raise ValueError(k)
        self.wrap_try(s, lambda: self.emit(src))
        self.step({"kind": "assert", "desc": {"op": "assert_" + k}})

    def st_val(self, s):
        if self.mode == "native":
            src = "%s.val()" % self.ex(s["a"])
        else:
            # the plain value handed back is looked at too (it must be the opened object's own value)
            src = "__valret__(_vo := %s, _vo.val())" % self.ex(s["a"])
        self.wrap_try(s, lambda: self.emit(src))
        self.step({"kind": "val"})

    def st_set_ie(self, s):
        self.emit("__set_ie__(%r)" % bool(s["value"]))
        self.step({"kind": "set_ie"})

    def st_bulk_priv(self, s):
        self.emit("for _k in range(%d): PrivVal(_k & 7)" % s["n"])
        self.step({"kind": "bulk_priv"})

    def st_bulk_pub(self, s):
        self.emit("for _k in range(%d): PubVal(_k & 7)" % s["n"])
        self.step({"kind": "bulk_pub"})

    def st_checkpoint_prove(self, s):
        self.emit("__prove__()")
        self.step({"kind": "checkpoint_prove"})

    def st_set_res(self, s):
        self.emit("__set_res__(%d)" % s["value"])
        self.step({"kind": "set_res"})

    def st_set_bl(self, s):
        self.emit("__set_bl__(%d)" % s["value"])
        self.step({"kind": "set_bl"})

    def region_body(self, body, fname, ret=None):
        """def fname(): body; return ret"""
        self.emit("def %s():" % fname)
        self.ind += 1
        saved = dict(self.counts)
        self.step({"kind": "region_entry"})
        for x in body:
            self.st(x)
        if ret is not None:
            self.emit("return %s" % self.ex(ret))
        self.ind -= 1
        self.counts = saved

    def st_guarded(self, s):
        self.rid += 1
        rid = self.rid
        self.fn += 1
        fname = "_r%d" % self.fn
        cnm = "_c%d" % rid
        mnm = "_m%d" % rid
        # condition evaluated outside the region
        csrc = self.ex(s["cond"])

        reuse = s.get("reuse_outer") and self.deco_stack and self.deco_stack[-1] is not None
        gnm = "_g%d" % rid

        def body():
            if reuse:
                # the enclosing region's decorator object (and condition) is applied again
                outer_g, outer_c, outer_pub = self.deco_stack[-1]
                self.emit("%s = %s" % (cnm, outer_c))
            else:
                self.emit("%s = %s" % (cnm, csrc))
            public = (outer_pub if reuse else "k" in s["cond"])
            if public:
                self.emit("%s = []" % mnm)       # a public condition is no factor of the guard
            else:
                self.emit("%s = [__cv__(%s)]" % (mnm, cnm))
            if self.mode != "unguarded":
                self.emit("%s = %s" % (gnm, outer_g if reuse else "guarded(%s)" % cnm))
            self.regions.append(mnm)
            self.region_ids.append((rid, "t"))
            self.deco_stack.append((gnm, cnm, public))
            self.region_body(s["body"], fname)
            self.deco_stack.pop()
            self.region_ids.pop()
            self.regions.pop()
            self.emit("__enter__(%d)" % rid)
            self.emit("try:")
            self.ind += 1
            if self.mode == "unguarded":
                self.emit("if __cv__(%s) == 1: %s()" % (cnm, fname))
            else:
                self.emit("%s(%s)()" % (gnm, fname))
            self.ind -= 1
            self.emit("finally:")
            self.ind += 1
            self.emit("__leave__(%d)" % rid)
            self.ind -= 1
        self.wrap_try(s, body)
        self.step({"kind": "after_region", "rid": rid})

    def st_local_block(self, s):
        """A BranchingValues object local to the enclosing region's function with one _if block whose body may raise:
        the exception leaves the block open, the enclosing region restores the guard, and the abandoned object is
        collected later."""
        if self.mode != "traced":
            raise NotImplementedError("local blocks exist in the traced run only")
        if not self.region_ids:
            raise ValueError("local_block outside a region")
        self.rid += 1
        rid = self.rid
        self.local_blocks += 1
        cnm, mnm, bnm = "_c%d" % rid, "_m%d" % rid, "_b%d" % rid
        self.emit("%s = %s" % (cnm, self.ex(s["cond"])))
        self.emit("%s = [__cv__(%s)]" % (mnm, cnm))
        self.emit("%s = BranchingValues()" % bnm)
        self.emit("%s.y = 0" % bnm)
        self.emit("__enter__(%d)" % rid)
        self.emit("if _if(%s, ctx=%s):" % (cnm, bnm) if s.get("explicit") else "if _if(%s):" % cnm)
        self.ind += 1
        self.regions.append(mnm)
        self.region_ids.append((rid, "t"))
        self.deco_stack.append(None)
        saved = dict(self.counts)
        self.step({"kind": "region_entry"})
        self.emit("%s.y = %s" % (bnm, self.ex(s["value"])))
        for x in s["body"]:
            self.st(x)
        if s.get("bug"):
            self.emit("{}['missing']")
        self.counts = saved
        self.deco_stack.pop()
        self.region_ids.pop()
        self.regions.pop()
        self.ind -= 1
        self.emit("_endif(ctx=%s)" % bnm if s.get("explicit") else "_endif()")
        self.emit("__leave__(%d)" % rid)
        self.step({"kind": "after_region", "rid": rid})

    def st_retry_while(self, s):
        """One oblivious loop (one source line, one BranchingValues object) run several times by the program; some
        runs are abandoned by an exception (a step that the merge refuses, a plain bug in the body) which the program
        catches; the loop is closed in a finally on every path.  Results of the completed runs go to ext.rw<k>."""
        maxit = s["maxit"]
        att = s["attempts"]
        if self.mode == "native":
            self.emit("def _rw(start, n, step):")
            self.emit("    acc = start; i = 0")
            self.emit("    while i < n and i < %d:" % maxit)
            self.emit("        acc = acc + step; i += 1")
            self.emit("    return acc")
            for k, a in enumerate(att):
                if not a.get("poison") or (a["poison"] == "bug" and a.get("bug", 0) > maxit):
                    self.emit("__ext__('rw%d', _rw(%d, %s, %d))" % (k, a["start"], self.bx(a["n"]), a["step"]))
            self.emit("__ext__('rw_open', 0)")
            self.step({"kind": "retry_while"})
            return
        self.emit("def _rw(_, start, n, step, bug):")
        self.emit("    _.acc = start")
        self.emit("    i = 0")
        self.emit("    try:")
        self.emit("        while _while(n > i) and i < %d:" % maxit)
        self.emit("            _.acc = _.acc + step")
        self.emit("            if bug and i == bug - 1: {}['missing']")
        self.emit("            i += 1")
        self.emit("    finally:")
        self.emit("        _endwhile()")
        self.emit("    return _.acc")
        self.emit("_rwb = BranchingValues()")
        for k, a in enumerate(att):
            step = "0.5" if a.get("poison") == "float" else "%d" % a["step"]
            bug = a.get("bug", 0) if a.get("poison") == "bug" else 0
            site = self.new_site({"kind": "caught", "stmt": "retry_while", "desc": {"op": "retry_while"}})
            self.emit("try:")
            self.emit("    __ext__('rw%d', _rw(_rwb, %d, %s, %s, %d))" % (k, a["start"], self.bx(a["n"]), step, bug))
            self.emit("except __CAUGHT__ as __e:")
            self.emit("    __caught__(%d, __e, ())" % site)
        self.emit("__ext__('rw_open', len(_rwb.stack))")
        self.emit("_rwb.stack.clear()")
        self.step({"kind": "retry_while"})

    def st_def_helper(self, s):
        if self.mode == "native":
            raise NotImplementedError("helpers have no native twin")
        self.rid += 1
        rid = self.rid
        self.fn += 1
        fname = "_r%d" % self.fn
        cnm, mnm, onm, hnm = "_c%d" % rid, "_m%d" % rid, "_o%d" % rid, "_h%d" % rid
        self.emit("%s = %s" % (cnm, self.ex(s["cond"])))
        self.emit("%s = [__cv__(%s)]" % (mnm, cnm))
        self.emit("%s = [()]" % onm)       # the model of the regions around the CALL, set by each call site
        saved = (self.regions, self.region_ids, self.deco_stack)
        self.regions, self.region_ids, self.deco_stack = ["*%s[0]" % onm, mnm], [(rid, "t")], [None]
        self.region_body(s["body"], fname)
        self.regions, self.region_ids, self.deco_stack = saved
        if self.mode == "unguarded":
            self.emit("%s = (lambda: %s() if __cv__(%s) == 1 else None)" % (hnm, fname, cnm))
        else:
            self.emit("%s = guarded(%s)(%s)" % (hnm, cnm, fname))
        self.helpers[s["hid"]] = (rid, hnm, onm)
        self.step({"kind": "def_helper"})

    def st_call_helper(self, s):
        rid, hnm, onm = self.helpers[s["hid"]]

        def body():
            self.emit("%s[0] = %s" % (onm, self.model_expr()))
            self.emit("__enter__(%d)" % rid)
            self.emit("try:")
            self.emit("    %s()" % hnm)
            self.emit("finally:")
            self.emit("    __leave__(%d)" % rid)
        self.wrap_try(s, body)
        self.step({"kind": "after_region", "rid": rid})

    def st_ite_call(self, s):
        self.rid += 1
        rid = self.rid
        self.fn += 2
        ft, ff = "_r%d" % (self.fn - 1), "_r%d" % self.fn
        cnm = "_c%d" % rid
        mt, mf = "_m%dt" % rid, "_m%df" % rid
        csrc = self.ex(s["cond"])
        fb = self.var("I", 0)

        def body():
            self.emit("%s = %s" % (cnm, csrc))
            self.emit("%s = [__cv__(%s)]" % (mt, cnm))
            self.emit("%s = [1 - __cv__(%s)]" % (mf, cnm))
            self.regions.append(mt)
            self.region_ids.append((rid, "t"))
            self.deco_stack.append(None)
            self.region_body(s["true"], ft, s["tret"])
            self.region_ids.pop()
            self.regions.pop()
            self.regions.append(mf)
            self.region_ids.append((rid, "f"))
            self.region_body(s["false"], ff, s["fret"])
            self.deco_stack.pop()
            self.region_ids.pop()
            self.regions.pop()
            self.emit("__enter__(%d)" % rid)
            self.emit("try:")
            self.ind += 1
            if self.mode == "unguarded":
                self.emit("_t%d = (%s() if __cv__(%s) == 1 else %s()) + 0" % (rid, ft, cnm, ff))
            else:
                self.emit("_t%d = if_then_else(%s, %s, %s)" % (rid, cnm, ft, ff))
            self.ind -= 1
            self.emit("finally:")
            self.ind += 1
            self.emit("__leave__(%d)" % rid)
            self.ind -= 1
        nm_holder = []

        def body2():
            body()
        self.wrap_try(s, body2, "_t%d = %s" % (rid, fb))
        nm = self.new_var("I")
        self.origin[nm] = {"op": "ite_call"}
        self.emit("%s = _t%d" % (nm, rid))
        self.step({"kind": "after_region", "rid": rid, "var": nm})

    def st_array(self, s):
        nm = self.new_var("A")
        if s.get("template"):
            # all rows built from one and the same Python list object
            self.emit("_tpl_%s = [%s]" % (nm, ", ".join(self.ex(x) for x in s["template"])))
            src = "Array([Array(_tpl_%s) for _k in range(%d)])" % (nm, s["n"])
        elif s.get("nest"):
            def nest(x):
                if isinstance(x, list):
                    return "Array([%s])" % ", ".join(nest(y) for y in x)
                return self.ex(x)
            src = nest(s["nest"])
        elif s.get("rows"):
            src = "Array([%s])" % ", ".join("Array([%s])" % ", ".join(self.ex(x) for x in row) for row in s["rows"])
        else:
            src = "Array([%s])" % ", ".join(self.ex(x) for x in s["els"])
        self.emit("%s = %s" % (nm, src))
        self.step({"kind": "array", "var": nm})

    def st_aderive(self, s):
        src_arr = self.var("A", s["arr"])
        nm = self.new_var("A")
        k = repr(s["k"])
        src = {"add": "%s + %s" % (src_arr, k), "radd": "%s + %s" % (k, src_arr), "mul": "%s * %s" % (src_arr, k),
               "rmul": "%s * %s" % (k, src_arr)}[s["how"]]
        self.emit("%s = %s" % (nm, src))
        self.step({"kind": "aderive", "var": nm, "desc": {"op": "array_" + s["how"]}})

    def st_aset(self, s):
        ix = s["ix"]
        if isinstance(ix, list):
            if s.get("chained"):
                tgt = self.var("A", s["arr"]) + "".join("[%s]" % self.ex(i) for i in ix)
            else:
                tgt = "%s[%s]" % (self.var("A", s["arr"]), ", ".join(self.ex(i) for i in ix))
        else:
            tgt = "%s[%s]" % (self.var("A", s["arr"]), self.ex(ix))
        if s.get("row_from") is not None:
            # whole-row assignment: the row read at (usually secret) index row_from
            rf = s["row_from"]
            if isinstance(rf, list):
                src = "%s[%s] = %s[%s]" % (self.var("A", s["arr"]), ", ".join(self.ex(i) for i in ix),
                                           self.var("A", s["arr"]), ", ".join(self.ex(i) for i in rf))
            else:
                src = "%s[%s] = %s[%s]" % (self.var("A", s["arr"]), self.ex(ix[0]), self.var("A", s["arr"]),
                                           self.ex(rf))
        else:
            src = "%s = %s" % (tgt, self.ex(s["value"]))
        self.wrap_try(s, lambda: self.emit(src))
        self.step({"kind": "aset", "desc": {"op": "aset"}})

    TERMINATORS = {
        "end": [],
        "sys_exit": ["sys.exit({arg})"],
        "raise_SystemExit": ["raise SystemExit({arg})"],
        "builtin_exit": ["exit({arg})"],
        "builtin_quit": ["quit({arg})"],
        "uncaught": ["raise RuntimeError('boom')"],
        "uncaught_assert": ["PrivVal(1).assert_eq(2)"],
        "uncaught_in_guard": ["guarded(PrivVal(1))(lambda: PrivVal(1).assert_eq(2))()"],
        "uncaught_in_dead_guard_user": ["def _boom(): raise KeyError('user code')", "guarded(PrivVal(0))(_boom)()"],
        "uncaught_in_snark": ["snark(lambda x: x.assert_eq(x + 1))(3)"],
        "uncaught_in_finally": ["try:", "    raise ValueError('inner')", "finally:", "    PrivVal(2) * PrivVal(3)"],
        "keyboard_interrupt": ["raise KeyboardInterrupt"],
        "caught_exit_then_end": ["try:", "    sys.exit({arg})", "except SystemExit:", "    pass"],
        "caught_error_then_end": ["try:", "    PrivVal(1).assert_eq(2)", "except AssertionError:", "    pass"],
        "os__exit": ["os._exit({arg})"],
        "exit_in_guard": ["guarded(PrivVal(1))(lambda: sys.exit({arg}))()"],
        # worker / supervisor: the rest of the script runs in a forked child that ends normally; the parent only waits
        # and leaves through os._exit with the child's status
        # the script ends (successfully or not) while a block of the block API is still open
        "exit_in_open_block": ["_ = BranchingValues()", "_.x = PrivVal(1)", "if _if(_.x == 1):", "    _.x = _.x + 1",
                               "    sys.exit({arg})"],
        "end_in_open_loop": ["_ = BranchingValues()", "_.x = PrivVal(2)", "for _i in _range(_.x, max=3):",
                             "    _.x = _.x + _i", "    if _i == 1: sys.exit({arg})"],
        "fork_worker": ["_pid = os.fork()", "if _pid:", "    os._exit(os.waitstatus_to_exitcode(os.waitpid(_pid, 0)[1]))"],
    }

    def st_setenv(self, s):
        # the program sets an environment variable after the library has been imported
        self.emit("__setenv__(%r, %r)" % (s["name"], s["value"]))
        self.step({"kind": "setenv"})

    def st_chdir(self, s):
        # the script changes its working directory in the middle of the run
        self.emit("os.makedirs('sub', exist_ok=True); os.chdir('sub')")
        self.step({"kind": "chdir"})

    def st_caught_exit(self, s):
        self.emit("try:")
        self.emit("    sys.exit(%s)" % s.get("arg", ""))
        self.emit("except SystemExit:")
        self.emit("    pass")

    def st_terminate(self, s):
        arg = s.get("arg", "")
        self.emit("__term__(%r)" % s["mode"])
        for ln in self.TERMINATORS[s["mode"]]:
            self.emit(ln.format(arg=arg))
        if s["mode"] in ("caught_exit_then_end", "caught_error_then_end", "fork_worker"):
            self.emit("__term__('after-caught')")

    # -- oblivious block API (C09) ---------------------------------------------------------
    def tv(self, name):
        return ("T_" + name) if self.mode == "native" else ("_." + name)

    def bx(self, e):
        """Expression over tracked variables, I variables and constants (both modes)."""
        if "tv" in e:
            return self.tv(e["tv"]) + "".join("[%d]" % i for i in e.get("path", []))
        if "list" in e and e.get("array"):
            # the same nested literal as an Array of Arrays (a matrix kept in a block variable)
            return "Array([%s])" % ", ".join(self.bx(dict(x, array=True)) if isinstance(x, dict) and "list" in x
                                            else self.bx(x) for x in e["list"])
        if "list" in e:
            return "[%s]" % ", ".join(self.bx(x) for x in e["list"])
        if "ext" in e:
            # a plain Python list living outside the BranchingValues object (whole, or one cell of it)
            return "E_" + e["ext"] + "".join("[%d]" % i for i in e.get("path", []))
        if "lv" in e:
            return e["lv"]                       # loop variable of an enclosing _range
        if "ref" in e:
            return self.var(e["t"], e["ref"])
        if "k" in e:
            return repr(e["k"])
        if "op" in e:
            return "(%s %s %s)" % (self.bx(e["a"]), e["op"], self.bx(e["b"]))
        if e.get("call") == "ite_lazy" and e.get("same"):
            # one and the same callable for both branches (a helper that does not depend on the condition)
            if self.mode == "native":
                return "(%s)" % self.bx(e["t_"])
            return "(lambda _f: if_then_else(%s, _f, _f))(lambda: %s)" % (self.bx(e["cond"]), self.bx(e["t_"]))
        if e.get("call") == "ite_lazy":
            if self.mode == "native":
                return "(%s if %s else %s)" % (self.bx(e["t_"]), self.bx(e["cond"]), self.bx(e["f_"]))
            return "if_then_else(%s, lambda: %s, lambda: %s)" % (self.bx(e["cond"]), self.bx(e["t_"]), self.bx(e["f_"]))
        if e.get("call") == "ite":
            if self.mode == "native":
                return "(%s if %s else %s)" % (self.bx(e["t_"]), self.bx(e["cond"]), self.bx(e["f_"]))
            return "if_then_else(%s, %s, %s)" % (self.bx(e["cond"]), self.bx(e["t_"]), self.bx(e["f_"]))
        raise ValueError("bx: %r" % (e,))

    def st_tracked_init(self, s):
        self.emit("%s = %s" % (self.tv(s["name"]), self.bx(s["e"])))
        self.step({"kind": "tracked_init", "desc": {"op": "tracked_init"}})

    def st_ext_list(self, s):
        self.emit("E_%s = %s" % (s["name"], self.bx(s["e"])))
        self.ext_lists = getattr(self, "ext_lists", []) + [s["name"]]
        self.step({"kind": "ext_list", "desc": {"op": "ext_list"}})

    def st_track(self, s):
        self.emit("%s%s = %s" % (self.tv(s["name"]), "".join("[%d]" % i for i in s.get("path", [])), self.bx(s["e"])))
        self.step({"kind": "track", "desc": {"op": "track"}})

    def block_body(self, body):
        self.ind += 1
        self.block_depth += 1
        if not body:
            self.emit("pass")
        for x in body:
            self.st(x)
        self.block_depth -= 1
        self.ind -= 1

    def st_block_if(self, s):
        native = self.mode == "native"
        def body():
            self.emit(("if %s:" if native else "if _if(%s):") % self.bx(s["cond"]))
            self.block_body(s["then"])
            for c, b in s.get("elifs", []):
                self.emit(("elif %s:" if native else "if _elif(lambda: %s):") % self.bx(c))
                self.block_body(b)
            if s.get("else") is not None:
                self.emit("else:" if native else "if _else():")
                self.block_body(s["else"])
            if not native:
                self.emit("_endif()")
        self.wrap_try(s, body)
        self.step({"kind": "after_block", "desc": {"op": "block_if", "elifs": len(s.get("elifs", [])),
                                                     "else": s.get("else") is not None}})

    def st_block_while(self, s):
        native = self.mode == "native"
        self.rid += 1
        it = "_it%d" % self.rid
        def body():
            self.emit("%s = 0" % it)
            if native:
                self.emit("while %s and %s < %d:" % (self.bx(s["cond"]), it, s["max"]))
            else:
                self.emit("while _while(%s) and %s < %d:" % (self.bx(s["cond"]), it, s["max"]))
            self.ind += 1
            self.block_depth += 1
            pos = s.get("break_pos", len(s["body"]))
            for i, x in enumerate(s["body"]):
                if s.get("breakif") is not None and i == pos:
                    self.emit_break(s["breakif"], native)
                self.st(x)
            if s.get("breakif") is not None and pos >= len(s["body"]):
                self.emit_break(s["breakif"], native)
            self.emit("%s += 1" % it)
            self.block_depth -= 1
            self.ind -= 1
            if not native:
                self.emit("_endwhile()")
        self.wrap_try(s, body)
        self.step({"kind": "after_block", "desc": {"op": "block_while", "breakif": s.get("breakif") is not None}})

    def emit_break(self, cond, native, rid=None):
        if native:
            if rid is not None:
                self.emit("if %s:" % self.bx(cond))
                self.emit("    _broke%d = True" % rid)
                self.emit("    break")
            else:
                self.emit("if %s: break" % self.bx(cond))
        else:
            self.emit("_breakif(%s)" % self.bx(cond))

    def st_block_for(self, s):
        native = self.mode == "native"
        self.rid += 1
        rid = self.rid
        s_lv = s["lv"]
        def body():
            rv = s.get("range_var")
            if native:
                self.emit("_broke%d = False" % self.rid)
                nsrc = "range(min(%s, %d))" % (self.bx(s["stop"]), s["max"])
                if "start" in s:
                    nsrc = "range(%d, min(%s, %d))" % (s["start"], self.bx(s["stop"]), s["max"])
                if rv and s.get("range_def"):
                    self.emit("%s = %s" % (rv, nsrc))
                self.emit("for %s in %s:" % (s_lv, rv if rv else nsrc))
            else:
                rsrc = "_range(%s, max=%d, checkstopmax=%r)" % (self.bx(s["stop"]), s["max"], bool(s.get("checkstopmax")))
                if "start" in s:
                    rsrc = "_range(%d, %s, max=%d, checkstopmax=%r)" % (s["start"], self.bx(s["stop"]), s["max"],
                                                                        bool(s.get("checkstopmax")))
                if rv and s.get("range_def"):
                    self.emit("%s = %s" % (rv, rsrc))
                self.emit("for %s in %s:" % (s_lv, rv if rv else rsrc))
            self.ind += 1
            self.block_depth += 1
            pos = s.get("break_pos", len(s["body"]))
            for i, x in enumerate(s["body"]):
                if s.get("breakif") is not None and i == pos:
                    self.emit_break(s["breakif"], native, rid)
                self.st(x)
            if not s["body"] and s.get("breakif") is None:
                self.emit("pass")
            if s.get("breakif") is not None and pos >= len(s["body"]):
                self.emit_break(s["breakif"], native, rid)
            self.block_depth -= 1
            self.ind -= 1
            if native:
                if s.get("checkstopmax"):
                    # the bound is only known to exceed max if the loop was still running at the cap
                    self.emit("if %s > %d and not _broke%d: raise AssertionError('stop exceeds max')" % (
                        self.bx(s["stop"]), s["max"], rid))
            else:
                self.emit("_endfor()")
        self.wrap_try(s, body)
        self.step({"kind": "after_block", "desc": {"op": "block_for", "checkstopmax": bool(s.get("checkstopmax")),
                                                     "breakif": s.get("breakif") is not None}})

    # -- @snark calls (C17) -----------------------------------------------------------------
    def struct_src(self, v, leaf):
        if isinstance(v, dict) and "argvar" in v:
            return v["argvar"]
        if isinstance(v, dict) and v.get("struct") == "alias_list":
            return "[%s] * %d" % (self.struct_src(v["item"], leaf), v["n"])
        if isinstance(v, dict) and v.get("struct") == "list":
            return "[%s]" % ", ".join(self.struct_src(x, leaf) for x in v["items"])
        if isinstance(v, dict) and v.get("struct") == "tuple":
            return "(%s,)" % ", ".join(self.struct_src(x, leaf) for x in v["items"])
        if isinstance(v, dict) and v.get("struct") == "dict":
            return "{%s}" % ", ".join("%r: %s" % (k, self.struct_src(x, leaf)) for k, x in v["items"])
        return leaf(v)

    def snark_leaf_arg(self, v):
        if "ref" in v:
            return self.var(v["t"], v["ref"])
        if v.get("enum"):
            return "__E__.%s" % v["enum"]        # an int subclass (IntEnum member): still a numeric argument
        if isinstance(v["k"], str) and v["k"].startswith(("bytes:", "bytearray:")):
            kind, _, hx = v["k"].partition(":")
            return "%s(bytes.fromhex(%r))" % (kind, hx)        # a bytes-like leaf (tag, nonce): one opaque object
        return repr(v["k"])

    def snark_leaf_ret(self, v):
        if "leaf" in v:
            return "_l[%d]" % v["leaf"]
        if "k" in v:
            return repr(v["k"])
        if "op" in v:
            return "(%s %s %s)" % (self.snark_leaf_ret(v["a"]), v["op"], self.snark_leaf_ret(v["b"]))
        raise ValueError(v)

    def st_snark_args(self, s):
        self.emit("%s = %s" % (s["name"], self.struct_src(s["value"], self.snark_leaf_arg)))

    def st_snark_call(self, s):
        self.rid += 1
        n = self.rid
        nargs = len(s["args"])
        params = ", ".join("_p%d" % i for i in range(nargs))
        self.emit("def _f%d(%s):" % (n, params))
        self.ind += 1
        self.emit("_l = __flat__([%s])" % params)
        if s.get("log"):
            self.emit("_log = 'call %r %s' % (_l, [str(_x) for _x in _l])")      # a log line about the arguments
        if s.get("raises"):
            # the wrapped function itself fails (after its arguments have been converted); the program catches it
            self.emit("raise KeyError('refused by the function')")
        self.emit("return %s" % self.struct_src(s["ret"], self.snark_leaf_ret))
        self.ind -= 1
        args = ", ".join(self.struct_src(a, self.snark_leaf_arg) for a in s["args"])
        if s.get("kwargs"):
            args += (", " if args else "") + "extra=1"
        def body():
            if self.mode == "native":
                if s.get("kwargs"):
                    self.emit("raise ValueError('kwargs')")
                self.emit("_ret%d = _f%d(%s)" % (n, n, args))
            else:
                self.emit("__callstart__(%d)" % n)
                self.emit("_ret%d = snark(_f%d)(%s)" % (n, n, args))
            self.emit("__callend__(%d, _ret%d)" % (n, n))
        self.wrap_try(s, body)
        self.step({"kind": "snark_call", "desc": {"op": "snark_call"}})

    # -- qaptools sub-circuits (C12) -----------------------------------------------------------
    SUBQAP_RET = {0: 1, 1: 1, 2: 2, 3: 1, 4: 1, 5: 1, 6: 2, 7: 0, 8: 1, 9: 1, 10: 2, 11: 1, 12: 0, 13: 1}

    def subqap_defs(self):
        for k, f in enumerate(self.plan.get("subqaps", [])):
            n = f["nargs"]
            params = ", ".join("a%d" % i for i in range(n))
            a0 = "a0"
            a1 = "a1" if n > 1 else "a0"
            self.emit("@subqap(%r)" % f["name"])
            self.emit("def _sq%d(%s):" % (k, params))
            self.ind += 1
            t = f["tmpl"]
            if t == 0:
                self.emit("return %s * %s" % (a0, a1))
            elif t == 1:
                self.emit("t = %s * %s" % (a0, a0))
                self.emit("return t + %s" % a1)
            elif t == 2:
                self.emit("return [%s * %s, %s + 1]" % (a0, a1, a0))
            elif t == 4:
                # an equality test and a constant inside the function (uses the constant-one wire)
                self.emit("return (%s == %s) * %s + 1" % (a0, a1, a0))
            elif t == 6:
                # no arguments at all: the function makes its own secrets and returns them (a product wire and a
                # linear combination)
                self.emit("s = PrivVal(%d)" % (3 + k))
                self.emit("return [s * s, s + 3]")
            elif t == 8:
                # MISUSE (a usage fault the backend has to report): the function multiplies by a secret of its caller
                # that was not handed over as an argument, so the equation mixes two contexts
                if f.get("swap"):
                    self.emit("return %s * vI0" % a0)
                else:
                    self.emit("return vI0 * %s" % a0)
            elif t == 9:
                # the first argument is a boolean-typed secret (the call site passes a comparison result)
                self.emit("return %s * %s + %s" % (a0, a1, a1))
            elif t == 10:
                # a boolean-typed and an integer result
                self.emit("return [(%s == %s), %s * %s]" % (a0, a1, a0, a1))
            elif t == 13:
                # fixed-point arithmetic with a float constant inside the function (the caller used the same constant
                # just before the call)
                self.emit("x = LinCombFxp(%s)" % a0)
                self.emit("y = if_then_else(x == 0.5, x, 0.5)")
                self.emit("return (y + y).lc * %s" % a0)
            elif t == 12:
                # a procedure: checks its (secret) arguments, hands nothing back
                self.emit("(%s * %s - %s * %s).assert_zero()" % (a0, a1, a1, a0))
                self.emit("return None")
            elif t == 11:
                # the body checks its arguments and may raise (the caller catches it and goes on)
                self.emit("%s.assert_lt(%s)" % (a0, a1))
                self.emit("return %s * %s" % (a0, a1))
            elif t == 7:
                # neither secret arguments nor secret results: a self-contained side condition
                self.emit("s = PrivVal(%d)" % (2 + k))
                self.emit("(s * s).assert_eq(%d)" % ((2 + k) ** 2))
                self.emit("return 5")
            elif t == 5:
                # a public value created inside the function
                self.emit("t = %s * %s" % (a0, a1))
                self.emit("t.val()")
                self.emit("return t + 0")
            else:
                inner = f.get("inner")
                if inner is None or inner >= k:
                    self.emit("return (%s + 1) * %s" % (a0, a1))
                else:
                    g = self.plan["subqaps"][inner]
                    args = ", ".join(([a0 + " * " + a1] + [a0] * (g["nargs"] - 1))[:g["nargs"]])
                    self.emit("r = _sq%d(%s)" % (inner, args))
                    self.emit("return (r[0] if isinstance(r, list) else r) + %s" % a0)
            self.ind -= 1

    def st_subqap_call(self, s):
        fns = self.plan.get("subqaps", [])
        k = s["fn"] % len(fns)
        f = fns[k]
        argl = [self.var("I", a["ref"]) for a in s["args"][:f["nargs"]]]
        if f["tmpl"] == 9:
            argl[0] = "(%s == %s)" % (argl[0], self.var("I", s["args"][2]["ref"]))
        args = ", ".join(argl)
        fb = self.var("I", 0)
        nm = self.new_var("I")
        self.origin[nm] = {"op": "subqap_call"}
        def body():
            if f["tmpl"] == 13:
                self.emit("_k13 = if_then_else(LinCombFxp(%s) == 0.5, LinCombFxp(%s), 0.5)" % (argl[0], argl[0]))
            self.emit("_r = _sq%d(%s)" % (k, args))
            if self.SUBQAP_RET[f["tmpl"]] == 0:
                self.emit("%s = %s" % (nm, fb))      # (the function returns a plain value)
            elif f["tmpl"] == 10:
                self.emit("%s = _r[0] + _r[1]" % nm)
            else:
                self.emit("%s = _r[0] if isinstance(_r, list) else _r" % nm)
        self.wrap_try(s, body, "%s = %s" % (nm, fb))
        self.step({"kind": "subqap_call", "desc": {"op": "subqap_call"}})

    def st_exportcomm(self, s):
        vals = ", ".join(self.var("I", a["ref"]) for a in s["vals"])
        self.wrap_try(s, lambda: self.emit("exportcomm([%s], %r)" % (vals, s["name"])))
        self.step({"kind": "exportcomm", "desc": {"op": "exportcomm"}})

    def st_importcomm(self, s):
        nm = self.new_var("I")
        fb = self.var("I", 0)
        self.origin[nm] = {"op": "importcomm"}
        self.wrap_try(s, lambda: self.emit("%s = importcomm(%r)[0]" % (nm, s["name"])), "%s = %s" % (nm, fb))
        self.step({"kind": "importcomm", "desc": {"op": "importcomm"}})

    def schema_src(self, sc, shared=None):
        k = sc[0]
        if k == "bool":
            return "PackBool()"
        if k == "int":
            return "PackIntMod(%d)" % sc[1]
        if k == "list" and self.plan["cfg"].get("share_packers"):
            # equal fields of one list are ONE packer object used at several positions (coord = PackIntMod(1024);
            # PackList([coord, coord]))
            parts, seen = [], {}
            for x in sc[1]:
                key = json.dumps(x)
                if key in seen:
                    parts.append(seen[key])
                else:
                    self.pk_n = getattr(self, "pk_n", 0) + 1
                    seen[key] = "_pk_s%d" % self.pk_n
                    parts.append("(%s := %s)" % (seen[key], self.schema_src(x)))
            return "PackList([%s])" % ", ".join(parts)
        if k == "list":
            return "PackList([%s])" % ", ".join(self.schema_src(x) for x in sc[1])
        if k == "rep":
            return "PackRepeat(%s, %d)" % (self.schema_src(sc[1]), sc[2])
        raise ValueError(k)

    def value_src(self, v):
        if isinstance(v, list):
            return "[%s]" % ", ".join(self.value_src(x) for x in v)
        return self.ex(v)

    def st_pack(self, s):
        self.rid += 1
        n = self.rid
        def body():
            self.emit("_pk%d = %s" % (n, self.schema_src(s["schema"])))
            if s.get("first") is not None:
                # history: the same packer object was first given another record, which it may have refused half-way
                # (an out-of-range element that is not the first one); the program caught that and goes on
                self.emit("try:")
                self.emit("    _pk%d.pack(%s)" % (n, self.value_src(s["first"])))
                self.emit("except __CAUGHT__ as __e:")
                self.emit("    pass")
            self.emit("_pv%d = %s" % (n, self.value_src(s["value"])))
            self.emit("_pb%d = _pk%d.pack(_pv%d)" % (n, n, n))
            self.emit("__packinfo__(%d, _pk%d, _pb%d)" % (n, n, n))
            self.emit("_po%d = _pk%d.unpack(_pb%d, 0)" % (n, n, n))
            self.emit("__packout__(%d, _po%d)" % (n, n))
        self.wrap_try(s, body)
        self.step({"kind": "pack", "desc": {"op": "pack"}})

    def st_unpack_raw(self, s):
        # the bits come from outside (plan inputs: raw secret integers holding 0/1), not from pack()
        self.rid += 1
        n = self.rid
        def body():
            self.emit("_pk%d = %s" % (n, self.schema_src(s["schema"])))
            self.emit("_po%d = _pk%d.unpack([%s], 0)" % (n, n, ", ".join(self.var("I", j) for j in range(s["nbits"]))))
            self.emit("__packout__(%d, _po%d)" % (n, n))
        self.wrap_try(s, body)
        self.step({"kind": "unpack_raw", "desc": {"op": "unpack_raw"}})

    # -- whole plan
    def generate(self):
        in_fn = bool(self.plan.get("in_function"))
        if in_fn:
            # the whole program lives in a function with its own BranchingValues and is called twice
            self.emit("def _prog(__inputs__):")
            self.ind += 1
        if self.plan.get("blocks") and self.mode != "native":
            self.emit("_ = BranchingValues()")
        if self.plan.get("subqaps"):
            self.subqap_defs()
        for i, inp in enumerate(self.plan["inputs"]):
            t = inp["t"]
            nm = self.new_var(t)
            ctor = {("priv", "I"): "PrivVal", ("pub", "I"): "PubVal", ("priv", "B"): "PrivValBool",
                    ("pub", "B"): "PubValBool", ("priv", "F"): "PrivValFxp", ("pub", "F"): "PubValFxp"}[
                (inp["kind"], t)]
            self.emit("%s = %s(__inputs__[%d])" % (nm, ctor, i))
            self.origin[nm] = {"op": "input", "kind": inp["kind"], "t": t}
        # a type without any declared input gets a default operand here, inside the prelude, so
        # that a reference can always be resolved to an *operand* (never to an inline allocation)
        for t, ctor in (("I", "PrivVal(0)"), ("B", "PrivValBool(0)"), ("F", "PrivValFxp(0.0)")):
            if self.counts[t] == 0 and not self.plan["cfg"].get("no_default_operands"):
                nm = self.new_var(t)
                self.emit("%s = %s" % (nm, ctor))
                self.origin[nm] = {"op": "input", "kind": "priv", "t": t}
        for m in sorted(_pack_moduli(self.plan["body"])):
            self.emit("_pkm%d = PackIntMod(%d)" % (m, m))
        self.step({"kind": "inputs"})
        for s in self.plan["body"]:
            self.st(s)
        for nm in getattr(self, "ext_lists", []):
            self.emit("__ext__(%r, E_%s)" % (nm, nm))      # final content of the outside lists
        if in_fn:
            if self.mode == "native":
                self.emit("__ret__({k[2:]: v for k, v in locals().items() if k.startswith('T_')})")
            else:
                self.emit("__ret__(dict(_.vals))")
            self.ind -= 1
            self.emit("_prog(__inputs__)")
            self.emit("_prog(__alt__)")
        return "\n".join(self.lines) + "\n"


def _pack_moduli(x, out=None):
    out = set() if out is None else out
    if isinstance(x, dict):
        if x.get("call") == "pack_roundtrip":
            out.add(x["m"])
        for v in x.values():
            _pack_moduli(v, out)
    elif isinstance(x, list):
        for v in x:
            _pack_moduli(v, out)
    return out


def plan_digest(plan):
    import hashlib
    from . import bigjson
    return hashlib.sha256(bigjson.dumps(plan, sort_keys=True).encode()).hexdigest()[:16]


def count_stmts(body):
    n = 0
    for s in body:
        n += 1
        for k in ("body", "true", "false"):
            if k in s:
                n += count_stmts(s[k])
    return n


# ---------------------------------------------------------------------------------------
# shrinking candidates (delta debugging over the plan)

import copy


def _bodies(stmt):
    return [k for k in ("body", "true", "false", "then", "else") if isinstance(stmt.get(k), list)]


def _walk_bodies(body, path=()):
    """Yield (path, list) for every statement list in the plan."""
    yield path, body
    for i, s in enumerate(body):
        for k in _bodies(s):
            yield from _walk_bodies(s[k], path + (i, k))


def _get(body, path):
    cur = body
    it = iter(path)
    for i in it:
        k = next(it)
        cur = cur[i][k]
    return cur


def _exprs_of(stmt):
    """(container, key) pairs holding expression nodes directly inside a statement."""
    out = []
    for k in ("e", "cond", "a", "ix", "value", "tret", "fret", "stop"):
        if isinstance(stmt.get(k), dict):
            out.append((stmt, k))
    for k in ("args", "els"):
        if isinstance(stmt.get(k), list):
            for i, x in enumerate(stmt[k]):
                if isinstance(x, dict):
                    out.append((stmt[k], i))
    e = stmt.get("e")
    if isinstance(e, dict):
        for k in ("a", "b", "ix"):
            if isinstance(e.get(k), dict):
                out.append((e, k))
        if isinstance(e.get("args"), list):
            for i, x in enumerate(e["args"]):
                out.append((e["args"], i))
    return out


def shrink_plan_candidates(case):
    """Yield smaller variants of a case {"plan":..., "faults":..., ...}."""
    plan = case["plan"]
    # 1. drop faults
    for k in list(case.get("faults", {})):
        c = copy.deepcopy(case)
        del c["faults"][k]
        yield c
    # 2. remove statements, last first, innermost bodies first
    paths = sorted((p for p, _ in _walk_bodies(plan["body"])), key=lambda p: -len(p))
    for path in paths:
        n = len(_get(plan["body"], path))
        # halves first
        if n >= 4 and not path:
            for lo, hi in ((n // 2, n), (0, n // 2)):
                c = copy.deepcopy(case)
                del _get(c["plan"]["body"], path)[lo:hi]
                yield c
        for i in reversed(range(n)):
            c = copy.deepcopy(case)
            del _get(c["plan"]["body"], path)[i]
            yield c
    # 3. unwrap regions
    for path, body in _walk_bodies(plan["body"]):
        for i, s in enumerate(body):
            for k in _bodies(s):
                c = copy.deepcopy(case)
                b = _get(c["plan"]["body"], path)
                b[i:i + 1] = b[i][k]
                yield c
    # 4. drop try flags
    for path, body in _walk_bodies(plan["body"]):
        for i, s in enumerate(body):
            if s.get("try"):
                c = copy.deepcopy(case)
                del _get(c["plan"]["body"], path)[i]["try"]
                yield c
    # 5. inputs: drop trailing, simplify values
    if len(plan["inputs"]) > 1:
        c = copy.deepcopy(case)
        c["plan"]["inputs"].pop()
        if "alt_inputs" in c:
            c["alt_inputs"] = c["alt_inputs"][:len(c["plan"]["inputs"])]
        yield c
    for key in ("inputs",):
        for i, inp in enumerate(plan["inputs"]):
            v = inp["v"]
            for nv in _simpler_values(v, inp["t"]):
                c = copy.deepcopy(case)
                c["plan"]["inputs"][i]["v"] = nv
                yield c
            if inp["kind"] == "pub":
                c = copy.deepcopy(case)
                c["plan"]["inputs"][i]["kind"] = "priv"
                yield c
    for i, v in enumerate(case.get("alt_inputs", [])):
        t = plan["inputs"][i]["t"] if i < len(plan["inputs"]) else "I"
        for nv in _simpler_values(v, t):
            c = copy.deepcopy(case)
            c["alt_inputs"][i] = nv
            yield c
    # 6. constants in expressions, references to 0
    for path, body in _walk_bodies(plan["body"]):
        for i, s in enumerate(body):
            for ci, (cont, key) in enumerate(_exprs_of(s)):
                node = cont[key]
                if "k" in node:
                    for nv in _simpler_values(node["k"], node.get("t", "I")):
                        c = copy.deepcopy(case)
                        cc, kk = _exprs_of(_get(c["plan"]["body"], path)[i])[ci]
                        cc[kk]["k"] = nv
                        yield c
                elif "ref" in node and node["ref"] != 0:
                    c = copy.deepcopy(case)
                    cc, kk = _exprs_of(_get(c["plan"]["body"], path)[i])[ci]
                    cc[kk]["ref"] = 0
                    yield c
            for k in ("bits",):
                if s.get(k) is not None and s[k] > 1:
                    c = copy.deepcopy(case)
                    _get(c["plan"]["body"], path)[i][k] = s[k] - 1
                    yield c
    # 7. configuration
    cfg = plan["cfg"]
    if cfg.get("bitlength", 0) > 2:
        for nb in (2, 3, 4, cfg["bitlength"] - 1):
            if nb < cfg["bitlength"]:
                c = copy.deepcopy(case)
                c["plan"]["cfg"]["bitlength"] = nb
                yield c
    if cfg.get("resolution", 0) > 0:
        for nr in (0, 1, cfg["resolution"] - 1):
            if nr < cfg["resolution"]:
                c = copy.deepcopy(case)
                c["plan"]["cfg"]["resolution"] = nr
                yield c


def _simpler_values(v, t):
    if t == "F" or isinstance(v, float):
        cands = [0.0, 1.0, 0.5, float(int(v))]
        return [x for x in cands if x != v and abs(x) <= abs(v)]
    if isinstance(v, bool):
        return []
    cands = [0, 1, 2, -1, v // 2, v - 1 if v > 0 else v + 1]
    out = []
    for x in cands:
        if x != v and abs(x) < abs(v) or (x != v and abs(x) == abs(v) and x > v):
            if x not in out:
                out.append(x)
    return out
