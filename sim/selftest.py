"""Self-tests of the machinery itself.

determinism: every check, several master seeds, each batch executed in fresh interpreters
  under (workers=16, hashseed=0), (workers=1, hashseed=0), (workers=16, hashseed=12345);
  the per-run digests (event logs, assignments, constraints, violations) must be identical.
sensitivity: every patch under selftest/mutants is applied to a scratch worktree of /repo
  (outside /repo and /verif); the check named in the patch's first line must report a
  VIOLATION within its quick budget; the worktree is removed.
"""
import json
import os
import subprocess
import sys

from . import engine as E


def digests(name, tier):
    chk = E.get_check(name)
    n = int(os.environ.get("VERIF_RUNS", chk.budget[tier]))
    res = E.run_cases(name, E.master_seed(), tier, n)
    bad = [r for r in res if r.get("harness_error")]
    if bad:
        print(json.dumps({"harness_error": bad[0]["harness_error"]}))
        return 2
    print(json.dumps([r.get("digest") for r in res]))
    return 0


def _spawn(name, seed, runs, workers, hashseed):
    env = dict(os.environ, VERIF_SEED=str(seed), VERIF_RUNS=str(runs), VERIF_WORKERS=str(workers),
               VERIF_HASHSEED=str(hashseed))
    p = subprocess.run([os.path.join(E.VERIF, "vcheck"), "digests", name, "quick"], env=env,
                       capture_output=True, text=True, timeout=3600)
    if p.returncode != 0:
        raise RuntimeError("digests %s failed: %s %s" % (name, p.stdout[-2000:], p.stderr[-2000:]))
    return json.loads(p.stdout.strip().splitlines()[-1])


def determinism(names, seeds=4, runs=60):
    from . import checks  # noqa: F401
    names = names or sorted(E._CHECKS)
    ok = True
    total = 0
    for name in names:
        for s in range(seeds):
            seed = 1000003 * (s + 1) + 17
            a = _spawn(name, seed, runs, 16, 0)
            b = _spawn(name, seed, runs, 1, 0)
            c = _spawn(name, seed, runs, 16, 12345)
            total += len(a)
            for label, other in (("workers=1", b), ("hashseed=12345", c)):
                diff = [i for i, (x, y) in enumerate(zip(a, other)) if x != y]
                if diff or len(a) != len(other):
                    ok = False
                    print("NONDETERMINISM check=%s seed=%d %s runs=%s" % (name, seed, label, diff[:10]))
        print("determinism %s: %d seeds x %d runs x 3 configurations compared" % (name, seeds, runs))
        sys.stdout.flush()
    print("determinism self-test: %s (%d run digests compared three ways)" % ("OK" if ok else "FAILED", total))
    return 0 if ok else 1


def sensitivity(patterns):
    mdir = os.path.join(E.VERIF, "selftest", "mutants")
    ok = True
    jobs = []
    for fn in sorted(os.listdir(mdir)):
        if not fn.endswith(".patch"):
            continue
        if patterns and not any(p in fn for p in patterns):
            continue
        jobs.append((fn, fn.split("_")[0].upper()))
    par = int(os.environ.get("VERIF_SELFTEST_PAR", "3"))
    env = dict(os.environ)
    env.setdefault("VERIF_WORKERS", str(max(2, 16 // par)))

    def one(job):
        fn, name = job
        return subprocess.run([os.path.join(E.VERIF, "tools", "with_mutant.sh"), os.path.join(mdir, fn),
                               os.path.join(E.VERIF, "vcheck"), name, "quick"], env=env, capture_output=True,
                              text=True, timeout=7200)
    import concurrent.futures as cf
    with cf.ThreadPoolExecutor(max_workers=par) as ex:
        for (fn, name), p in zip(jobs, ex.map(one, jobs)):
            hit = [l for l in p.stdout.splitlines() if l.startswith("VIOLATION property=")]
            status = "caught" if (p.returncode == 1 and hit) else "MISSED (rc=%d)" % p.returncode
            if status != "caught":
                ok = False
                print(p.stdout[-1500:], p.stderr[-1500:])
            print("sensitivity %-55s %s %s" % (fn, status, hit[0] if hit else ""))
            sys.stdout.flush()
    return 0 if ok else 1


def simfs(argv):
    """Keep the SimFS model honest: the same qaptools histories in the simulated directory (default
    buffer capacity) and in a fresh interpreter on a real scratch directory with the executable fakes;
    every file left behind and every tool invocation (arguments, status, what the tool saw) must agree."""
    import random
    from . import checks, exitsim as X, qapsim as Q, plan as P
    n = int(argv[0]) if argv else 40
    chk = E.get_check("C12")
    bad = 0
    done = 0
    for i in range(n):
        rng = E.rng_for(E.master_seed(), "C12x", i)
        case = chk.gen(rng, i, "quick")
        case["faults"].pop("write_fault", None)
        case["faults"]["bufcap"] = 8192
        tf = case["faults"].get("toolfail")
        fs = Q.SimFS(8192)
        r1 = checks.QapRun(case["plan"], fs, case["seed"], faults=case["faults"]).run()
        if r1.outcome != "completed":
            continue
        sim_files = fs.snapshot()
        sim_calls = [(c["tool"], c["argv"], c.get("rc"), c.get("eqs_digest"), c.get("equations"), c.get("functions"))
                     for c in r1.calls]
        body = ("from pysnark.qaptools.backend import subqap, exportcomm, importcomm\n"
                "_rt.bitlength = %d\n" % case["plan"]["cfg"]["bitlength"]) + X.body_source(case["plan"])
        env = X.child_env("qaptools")
        if tf:
            env["VERIF_TOOL_FAIL"] = "%s:%d" % (tf[0], tf[1])
        r = X.run_child(body, {"inputs": [x["v"] for x in case["plan"]["inputs"]], "random_seed": case["seed"]}, env)
        real_files = {k: v.decode() for k, v in r["after"].items()}
        real_calls = [(c["tool"], c["argv"], c.get("rc"), c.get("eqs_digest"), c.get("equations"), c.get("functions"))
                      for c in r["tools"]]
        real_calls = [(t, [os.path.basename(a) if a.startswith("/") else a for a in argv], rc, d, e, f)
                      for (t, argv, rc, d, e, f) in real_calls]
        done += 1
        if sim_files != real_files or sim_calls != real_calls:
            bad += 1
            df = [k for k in set(sim_files) | set(real_files) if sim_files.get(k) != real_files.get(k)]
            print("SIMFS-MISMATCH case %d: files differing %r; calls sim=%r real=%r" % (
                i, df[:4], [c[0] for c in sim_calls], [c[0] for c in real_calls]))
            for k in df[:1]:
                print("--- sim %s\n%s\n--- real\n%s" % (k, sim_files.get(k), real_files.get(k)))
            if r["stderr"]:
                print(r["stderr"][-600:])
    print("simfs self-test: %d histories compared, %d mismatches" % (done, bad))
    return 0 if bad == 0 and done > 0 else 1


def seeded(patterns):
    """Every change kept under seeded/ (written by sub-agents from the property text alone) must be
    reported by the check of its property within the quick budget."""
    sdir = os.path.join(E.VERIF, "seeded")
    ok = True
    jobs = []
    for name in sorted(os.listdir(sdir)):
        if patterns and not any(p in name for p in patterns):
            continue
        d = os.path.join(sdir, name)
        if not os.path.isfile(os.path.join(d, "patch.diff")):
            continue
        meta = json.load(open(os.path.join(d, "meta.json")))
        # "check": the check that reports it where that is not the property's own (see check_result in the meta file)
        prop = meta.get("check") or meta.get("property", name[:3])
        jobs.append((name, d, prop))
    par = int(os.environ.get("VERIF_SELFTEST_PAR", "3"))
    env = dict(os.environ)
    env.setdefault("VERIF_WORKERS", str(max(2, 16 // par)))

    def one(job):
        name, d, prop = job
        return subprocess.run([os.path.join(E.VERIF, "tools", "with_mutant.sh"), os.path.join(d, "patch.diff"),
                               os.path.join(E.VERIF, "vcheck"), prop, "quick"], capture_output=True, text=True,
                              timeout=7200, env=env)
    import concurrent.futures as cf
    with cf.ThreadPoolExecutor(max_workers=par) as ex:
        for (name, d, prop), p in zip(jobs, ex.map(one, jobs)):
            hit = [l for l in p.stdout.splitlines() if l.startswith("VIOLATION property=")]
            status = "caught" if (p.returncode == 1 and hit) else "MISSED (rc=%d)" % p.returncode
            if status != "caught":
                ok = False
            print("seeded %-55s %-6s %s (%d signatures)" % (name, prop, status, len(hit)))
            sys.stdout.flush()
    return 0 if ok else 1


def main(argv):
    if argv and argv[0] == "seeded":
        return seeded(argv[1:])
    if argv and argv[0] == "simfs":
        return simfs(argv[1:])
    if argv and argv[0] == "determinism":
        return determinism(argv[1:])
    if argv and argv[0] == "sensitivity":
        return sensitivity(argv[1:])
    print("usage: selftest determinism [checks...] | sensitivity [patterns...]")
    return 2
