"""exitsim: one fresh interpreter per run.  The script is generated from a plan (same code
generator as tracesim) with a terminator statement at a chosen position; a preamble sets up
the environment faults (pre-imports, import failures, get_ipython), wraps backend.prove to
count invocations and dumps the trace at the termination point through a side-channel file
outside the working directory.  Judged from the real exit status, stderr, the side channel
and the artefacts in the scratch working directory."""
import hashlib
import json
from . import bigjson
import os
import shutil
import subprocess
import sys
import tempfile

from . import world as W
from .plan import CodeGen

PY = "/venv/bin/python"

PREAMBLE = r'''
import sys, os, json, builtins
_SIDE = os.environ["VERIF_SIDE"]
def _lift(f, *a):
    # (the checker's own (de)serialisation may meet integers beyond the interpreter's int <-> str limit; the limit is
    # put back before any library code runs)
    _o = sys.get_int_max_str_digits()
    sys.set_int_max_str_digits(0)
    try:
        return f(*a)
    finally:
        sys.set_int_max_str_digits(_o)
def _side(rec):
    with open(_SIDE, "a") as f:
        f.write(_lift(json.dumps, rec) + "\n")
_cfg = _lift(json.loads, os.environ["VERIF_CHILD_CFG"])
if "random_seed" in _cfg:
    import random as _rm
    _rr = _rm.Random(_cfg["random_seed"])
    _rm.SystemRandom = lambda *a: _rr
if _cfg.get("importfail"):
    import importlib.abc
    class _Fail(importlib.abc.MetaPathFinder):
        def find_spec(self, name, path=None, target=None):
            if name.split(".")[0] in _cfg["importfail"] or name in _cfg["importfail"]:
                raise ImportError("injected: no module named " + name)
            return None
    sys.meta_path.insert(0, _Fail())
if _cfg.get("ipython"):
    builtins.get_ipython = lambda: object()
if _cfg.get("prehook"):
    # the application's own sys.excepthook, installed before the library chains to it
    def _apphook(tp, ex, tb, _kind=_cfg["prehook"]):
        sys.stderr.write("application hook: %s\n" % tp.__name__)
        if _kind == "status":
            raise SystemExit(3)             # crashes get a status of their own
        if _kind == "broken":
            raise OSError("cannot write the crash log")
    sys.excepthook = _apphook
for _m in _cfg.get("preimport", []):
    try:
        __import__(_m)
        _side({"ev": "preimport", "module": _m, "ok": True})
    except BaseException as _e:
        _side({"ev": "preimport", "module": _m, "ok": False, "error": type(_e).__name__ + ": " + str(_e)[:200]})
import pysnark.runtime as _rt
_b = _rt.backend
def _lcd(lc):
    d = getattr(lc, "lc", None)
    if isinstance(d, dict):
        return {str(k): v for k, v in d.items()}
    s = getattr(lc, "sig", None)
    if s is not None:
        return [[c, v] for c, v in s]
    return None
def _dump():
    if hasattr(_b, "pubvals") and hasattr(_b, "constraints"):
        return {"pub": list(_b.pubvals), "priv": list(_b.privvals),
                "cons": [[_lcd(x) for x in c] for c in _b.constraints]}
    return None
_side({"ev": "imported", "backend_name": _rt.backend_name, "module": getattr(_b, "__name__", None),
       "modulus": (_b.get_modulus() if hasattr(_b, "get_modulus") else None),
       "interface": {k: callable(getattr(_b, k, None)) for k in
                     ("privval", "pubval", "zero", "one", "fieldinverse", "get_modulus", "add_constraint", "prove")}})
if _b is not None and hasattr(_b, "prove"):
    _real_prove = _b.prove
    def _prove():
        _side({"ev": "prove", "trace": _dump()})
        return _real_prove()
    _b.prove = _prove
def __prove__():
    _b.prove()          # an explicit prove() in the middle of the script (plans with a checkpoint)
if "autoprove" in _cfg:
    _rt.autoprove = _cfg["autoprove"]
if _cfg.get("operation") is not None:
    # the libsnark examples' way of asking for one step (only some backends know what to do with it)
    _rt.operation = _cfg["operation"]
    _rt.namevals = dict(_cfg.get("namevals") or {})
from pysnark.runtime import PrivVal, PubVal, ConstVal, LinComb, guarded, snark
from pysnark.boolean import PrivValBool, PubValBool, LinCombBool
from pysnark.fixedpoint import PrivValFxp, PubValFxp, LinCombFxp
from pysnark.branching import if_then_else, BranchingValues, _if, _else, _endif, _range, _endfor, _while, _endwhile
from pysnark.array import Array
from pysnark.pack import PackBool, PackIntMod, PackList, PackRepeat
__inputs__ = _cfg.get("inputs", [])
__zero__ = ConstVal(0)
__CAUGHT__ = Exception
def __step__(k, loc, model): pass
def __enter__(r): pass
def __leave__(r): pass
def __caught__(k, e, m=()): pass
def __set_ie__(v): _rt.ignore_errors(v)
def __set_res__(r): __import__("pysnark.fixedpoint").fixedpoint.resolution = r
def __set_bl__(b): _rt.bitlength = b
def __cv__(c): return 0
def __setenv__(name, value): os.environ[name] = value
def __valret__(obj, ret): pass
def __packinfo__(n, packer, bits): _side({"ev": "packed", "nbits": len(bits)})
def __packout__(n, out): pass
def __term__(mode): _side({"ev": "term", "mode": mode, "trace": _dump()})
'''


def snapshot(d):
    out = {}
    for root, _, files in os.walk(d):
        for fn in files:
            p = os.path.join(root, fn)
            with open(p, "rb") as f:
                out[os.path.relpath(p, d)] = f.read()
    return out


def child_env(backend=None, stubs=True, extra=None):
    env = {"PATH": os.environ.get("PATH", "/usr/bin:/bin"), "HOME": os.environ.get("HOME", "/root"),
           "PYTHONDONTWRITEBYTECODE": "1", "PYTHONHASHSEED": "0", "PYTHONWARNINGS": "ignore"}
    pp = [W.REPO]
    if stubs:
        pp.append(os.path.join(W.STUBS, "py"))
    env["PYTHONPATH"] = ":".join(pp)
    env["QAPTOOLS_BIN"] = os.path.join(W.STUBS, "qaptools-bin")
    if backend is not None:
        env["PYSNARK_BACKEND"] = backend
    if extra:
        env.update(extra)
    return env


def run_child(body_src, cfg, env, pre_files=None, timeout=120, pyflags=()):
    """Run preamble+body in a fresh interpreter in an empty scratch cwd.  Returns a dict."""
    cwd = tempfile.mkdtemp(prefix="exit-cwd-")
    side_dir = tempfile.mkdtemp(prefix="exit-side-")
    side = os.path.join(side_dir, "side.jsonl")
    script = os.path.join(side_dir, "script.py")
    try:
        for fn, data in (pre_files or {}).items():
            os.makedirs(os.path.dirname(os.path.join(cwd, fn)) or cwd, exist_ok=True)
            with open(os.path.join(cwd, fn), "wb") as f:
                f.write(data)
        before = snapshot(cwd)
        with open(script, "w") as f:
            f.write(PREAMBLE + "\n" + body_src)
        e = dict(env)
        e["VERIF_SIDE"] = side
        e["VERIF_CHILD_CFG"] = bigjson.dumps(cfg)
        e["VERIF_TOOL_LOG"] = os.path.join(side_dir, "tools.jsonl")
        try:
            p = subprocess.run([PY] + list(pyflags) + [script], cwd=cwd, env=e, capture_output=True, timeout=timeout,
                               start_new_session=True, stdin=subprocess.DEVNULL)
            rc, out, err = p.returncode, p.stdout.decode("utf-8", "replace"), p.stderr.decode("utf-8", "replace")
        except subprocess.TimeoutExpired:
            rc, out, err = "timeout", "", ""
        after = snapshot(cwd)
        events = []
        if os.path.exists(side):
            with open(side) as f:
                for ln in f:
                    events.append(bigjson.loads(ln))
        tools = []
        tl = os.path.join(side_dir, "tools.jsonl")
        if os.path.exists(tl):
            with open(tl) as f:
                tools = [json.loads(ln) for ln in f if ln.strip()]
        return {"rc": rc, "stdout": out, "stderr": err, "before": before, "after": after, "events": events,
                "tools": tools}
    finally:
        shutil.rmtree(cwd, ignore_errors=True)
        shutil.rmtree(side_dir, ignore_errors=True)


def body_source(plan):
    return CodeGen(plan).generate()


def trace_to_rec(trace, name):
    """Side-channel trace dump -> a Recorder-like object for the file oracles."""
    rec = W.Recorder(name)
    rec.pub = list(trace["pub"])
    rec.priv = list(trace["priv"])
    rec.cons = [tuple({int(k): v for k, v in part.items()} for part in c) for c in trace["cons"]]
    rec.cons_flags = [True] * len(rec.cons)   # satisfaction is C01's business, not judged here
    return rec


def files_digest(files):
    return {k: hashlib.sha256(v).hexdigest()[:12] for k, v in sorted(files.items())}
