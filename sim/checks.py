"""The registered checks (one per claimed property)."""
import copy

from . import engine as E
from . import plan as P
from . import tracesim as T
from . import world as W

REAL_TRACE = ("real: pysnark/runtime.py, boolean.py, fixedpoint.py, branching.py, array.py and the "
              "selected backend module (snarkjs / zkinterface x3) imported fresh from /repo for every "
              "run; stub: the `flatbuffers` package for the zkinterface backends (verif/stubs/py)")


def swarm_cfg(rng, backends=W.DICT_BACKENDS, fxp_p=0.5, bits=(3, 4, 5, 6, 8, 8, 16)):
    return {
        "backend": rng.choice(backends),
        "bitlength": rng.choice(bits),
        "resolution": rng.choice([0, 1, 2, 3, 4, 8]),
        "value_bias": rng.choice(["tiny", "mixed", "mixed", "field"]),
        "max_nesting": rng.choice([0, 1, 2, 3]),
        "p_try": rng.choice([0.0, 0.5, 0.9, 1.0]),
        "p_bool_cond": rng.choice([0.0, 0.5, 1.0]),
        "fxp": rng.random() < fxp_p,
    }


def swarm_weights(rng, base, toggles):
    """Each toggle kind is switched off with p = 1/2 so that rare mixes get runs to themselves."""
    w = dict(base)
    for k in toggles:
        if rng.random() < 0.5:
            w[k] = 0
    return w


def draw_faults(rng, kinds, plan):
    """At most one abort per run in most runs; none in ~40 % of runs."""
    f = {}
    u = rng.random()
    if "abort_seam" in kinds and u < 0.35:
        f["abort_seam"] = 1 + int(rng.random() ** 2 * 120)
        if rng.random() < 0.2:
            f["abort_exc"] = "interrupt"
    elif "abort_stmt" in kinds and u < 0.6:
        f["abort_stmt"] = 1 + rng.randrange(0, 3 * max(1, P.count_stmts(plan["body"])))
    return f


class TraceCheck:
    """Base for checks decided by tracesim."""
    props = ()
    weights = {}
    toggles = ("div", "bits", "shift", "pow", "unary", "boolop", "check", "ite", "tobits", "tobool",
               "assert", "val", "set_ie")
    fault_kinds = ()
    backends = W.DICT_BACKENDS
    components = REAL_TRACE
    assumptions = []
    nontrivial_probe = None

    def cfg(self, rng):
        return swarm_cfg(rng, self.backends)

    def gen(self, rng, i, tier):
        cfg = self.cfg(rng)
        w = swarm_weights(rng, self.weights, self.toggles)
        plan = P.generate(rng, cfg, w)
        return {"plan": plan, "faults": draw_faults(rng, self.fault_kinds, plan)}

    def execute(self, case):
        return T.TraceRun(case["plan"], case.get("faults"), props=self.props).run()

    def result(self, tr, case, extra_viol=()):
        rec = tr.w.rec
        faults = {}
        if tr.probes.get("abort_seam_fired"):
            faults["abort@seam"] = 1
        if tr.probes.get("abort_stmt_fired"):
            faults["abort@stmt"] = 1
        ncaught = len(tr.caught)
        if ncaught:
            faults["caught"] = ncaught
        if tr.probes.get("step_in_dead_region"):
            faults["guard0"] = 1
        if tr.probes.get("set_ie"):
            faults["user_nocheck"] = tr.probes["set_ie"]
        viol = [dict(v) for v in tr.violations if v["property"] == self.prop] + list(extra_viol)
        nt = None
        if self.is_nontrivial(tr):
            nt = P.plan_digest({"p": case["plan"], "f": case.get("faults")})
        return {
            "violations": viol,
            "digest": E.sha(tr.digest_material()),
            "nontrivial": nt,
            "events": tr.steps + rec.seam_calls,
            "faults": faults,
            "probes": dict(tr.probes),
            "sigs": [E.sha(s) for s in tr.state_sigs if not (isinstance(s, tuple) and s and s[0] == "C04")],
            "outcome": tr.outcome,
        }

    def is_nontrivial(self, tr):
        return len(tr.w.rec.cons) > 0

    def run(self, case):
        tr = self.execute(case)
        return self.result(tr, case)

    def shrink_candidates(self, case):
        return P.shrink_plan_candidates(case)


# ---------------------------------------------------------------------------------------
class C08(TraceCheck):
    name = "C08"
    prop = "C08"
    props = ("C08",)
    budget = {"quick": 4000, "thorough": 200000}
    weights = {"guarded": 9, "ite_call": 4, "let": 8, "assert": 3, "set_ie": 1.0, "fxp": 1}
    toggles = ("div", "bits", "shift", "pow", "boolop", "check", "tobits", "tobool", "assert", "set_ie",
               "ite_call")
    fault_kinds = ("abort_seam", "abort_stmt")
    rule = ("seeded plans of nested guarded regions (decorator form and callable if_then_else branches, "
            "raw 0/1 and boolean-typed conditions, guard values 0/1 per level), left by return, by a "
            "value-caused exception of the body, by an exception injected at a statement boundary or "
            "at the n-th backend seam call; oracle after every statement and in a finally after every "
            "region: snapshot model of (guard, error mode, ONE) by identity, conjunction of enclosing "
            "condition values inside. non-trivial = distinct (plan, fault schedule) in which at least "
            "one region was actually left (by return or exception)")

    def cfg(self, rng):
        c = swarm_cfg(rng, self.backends, fxp_p=0.2, bits=(3, 4, 6, 8))
        c["max_nesting"] = rng.choice([1, 2, 3, 3])
        return c

    def is_nontrivial(self, tr):
        return bool(tr.probes.get("region_left_by_return") or tr.probes.get("region_left_by_exception"))


E.register(C08())


# ---------------------------------------------------------------------------------------
FULL_MIX = {"let": 10, "assert": 3, "guarded": 2.5, "ite_call": 1.0, "set_ie": 0.3, "val": 1,
            "array": 0.8, "aset": 0.8, "aget": 1.0}


class C01(TraceCheck):
    name = "C01"
    prop = "C01"
    props = ("C01",)
    budget = {"quick": 3000, "thorough": 200000}
    weights = FULL_MIX
    fault_kinds = ("abort_seam",)
    rule = ("seeded straight-line plans over the public API (all operators with the three operand-kind "
            "combinations, assertions, conversions, selection, arrays, guarded regions with both guard "
            "values, user-level ignore_errors), per-run swarm of bitlength/resolution/backend field/"
            "statement mix/value bias; after every statement every newly emitted constraint is evaluated "
            "on the recorder's own assignment modulo the hard-coded prime of the backend name; "
            "constraints emitted while the plan itself has ignore_errors(True) are exempt. non-trivial = "
            "distinct (plan, faults) with at least one non-exempt constraint evaluated")

    def is_nontrivial(self, tr):
        rec = tr.w.rec
        return any(not f for f in rec.cons_flags)


class C04(TraceCheck):
    name = "C04"
    prop = "C04"
    props = ("C04",)
    budget = {"quick": 3000, "thorough": 200000}
    weights = dict(FULL_MIX, set_ie=1.2, guarded=4)
    fault_kinds = ("abort_seam",)
    rule = ("same plan space as C01 with more weight on the error paths (user-level ignore_errors, false "
            "guards with operands invalid for the body); after every statement every secret object "
            "visible to the script (variables, list and array elements) must satisfy value mod p == "
            "wire expression evaluated on the recorder's assignment; only the earliest mismatch of a "
            "run is reported. non-trivial = distinct (plan, faults) in which at least one secret object "
            "was produced under a false guard or with error checking off")

    def is_nontrivial(self, tr):
        return bool(tr.probes.get("step_in_dead_region") or tr.probes.get("set_ie"))


def segment_diff(tr1, tr2):
    """First statement site at which the two runs' event logs differ, or None."""
    r1, r2 = tr1.w.rec, tr2.w.rec
    c1, c2 = r1.canon_cons(), r2.canon_cons()

    def seg(tr, rec, cc, lo, hi):
        out = []
        for e in rec.events[lo:hi]:
            out.append(e[0] if e[0] != "con" else ("con", cc[e[1]]))
        return out
    prev1 = prev2 = 0
    for (s1, n1), (s2, n2) in zip(tr1.marks, tr2.marks):
        if s1 != s2:
            return s1, "control flow diverged"
        if seg(tr1, r1, c1, prev1, n1) != seg(tr2, r2, c2, prev2, n2):
            return s1, "events of this statement differ (%d vs %d)" % (n1 - prev1, n2 - prev2)
        prev1, prev2 = n1, n2
    if len(tr1.marks) != len(tr2.marks):
        return (tr1.marks + tr2.marks)[min(len(tr1.marks), len(tr2.marks))][0], "different number of steps"
    return None


class C06(TraceCheck):
    name = "C06"
    prop = "C06"
    props = ()
    budget = {"quick": 2000, "thorough": 100000}
    weights = dict(FULL_MIX, set_ie=0)
    rule = ("twin executions of one generated source on two input vectors (every boolean input flipped "
            "with p=1/2 so that secret conditions take both outcomes; in 30 % of pairs both twins run "
            "under ignore_errors(True) so that one may carry invalid operands); both completing => "
            "identical allocation-kind sequence, identical canonical constraint list (terms sorted, "
            "coefficients mod p, zero terms dropped) statement by statement, identical canonical wire "
            "expression of every final variable. non-trivial = distinct plans whose twins both completed "
            "and emitted at least one constraint with different assignments")

    def cfg(self, rng):
        c = swarm_cfg(rng, self.backends)
        c["p_try"] = 0.0
        return c

    def gen(self, rng, i, tier):
        cfg = self.cfg(rng)
        w = swarm_weights(rng, self.weights, self.toggles)
        plan = P.generate(rng, cfg, w)
        nocheck = rng.random() < 0.3
        if nocheck:
            plan["body"].insert(0, {"s": "set_ie", "value": True})
        g = P.Gen(rng, cfg)
        alt = []
        for inp in plan["inputs"]:
            if inp["t"] == "B":
                alt.append(1 - inp["v"] if rng.random() < 0.5 else inp["v"])
            elif inp["t"] == "I":
                alt.append(g.small_int() if rng.random() < 0.8 else inp["v"])
            else:
                alt.append(rng.choice([0.5, 1.5, -2.25, 3.0, 0.0, 1.0, -1.0, 7.5, 0.125]))
        return {"plan": plan, "alt_inputs": alt}

    def run(self, case):
        plan = case["plan"]
        tr1 = T.TraceRun(plan, props=()).run()
        alt = list(case["alt_inputs"]) + [i["v"] for i in plan["inputs"]][len(case["alt_inputs"]):]
        tr2 = T.TraceRun(plan, inputs=alt, props=()).run()
        viol = []
        discarded = not (tr1.outcome == "completed" and tr2.outcome == "completed")
        nt = None
        if not discarded:
            d = segment_diff(tr1, tr2)
            if d is not None:
                site, why = d
                info = tr1.gen.sites.get(site, {})
                s = dict(info.get("desc") or {"op": info.get("kind")})
                s["nocheck"] = bool(tr1.user_ie or tr2.user_ie or any(tr1.w.rec.cons_flags))
                viol.append({"property": "C06", "oracle": "structure_differs", "site": s,
                             "detail": "site %d: %s" % (site, why)})
            else:
                for nm in tr1.finals:
                    if nm in tr2.finals and tr1.finals[nm][1] != tr2.finals[nm][1]:
                        s = dict(tr1.gen.origin.get(nm, {}))
                        viol.append({"property": "C06", "oracle": "result_wire_differs", "site": s,
                                     "detail": "%s has different wire expressions in the two runs" % nm})
                        break
            r1, r2 = tr1.w.rec, tr2.w.rec
            if r1.cons and (r1.pub, r1.priv) != (r2.pub, r2.priv):
                nt = P.plan_digest(plan)
        res = self.result(tr1, case, viol)
        res["nontrivial"] = nt
        res["discarded"] = discarded
        res["digest"] = E.sha((tr1.digest_material(), tr2.digest_material()))
        res["events"] += tr2.steps + tr2.w.rec.seam_calls
        res["outcome"] = (tr1.outcome, tr2.outcome)
        if tr1.probes.get("step_in_dead_region") != tr2.probes.get("step_in_dead_region"):
            res["probes"]["twins_took_different_guard_outcomes"] = 1
        return res


E.register(C01())
E.register(C04())
E.register(C06())


# ---------------------------------------------------------------------------------------
# proversim checks
import random as _random

from . import proversim as PV

REAL_PROVER = ("real: pysnark/runtime.py, boolean.py, fixedpoint.py, branching.py, array.py, pack.py and the "
               "snarkjs / zkinterface backend modules (fresh import per honest or shadow run); the verifier is "
               "the checker's own evaluation of every recorded constraint modulo the hard-coded prime; stub: "
               "`flatbuffers` (import only, for the zkinterface backends)")

VALUE_OPS = {"let": 10, "assert": 0, "guarded": 0, "ite_call": 0, "set_ie": 0, "val": 0, "array": 0,
             "aset": 0, "aget": 0, "fxp": 1.0, "arith": 2, "div": 6, "bits": 5, "cmp": 6, "shift": 1.5,
             "pow": 1, "unary": 3, "boolop": 3, "check": 4, "ite": 3, "tobits": 2, "tobool": 1}


def honest(plan, inputs=None):
    """Honest run with checks on; None unless it completed with no exception at all."""
    tr = PV.run_plan(plan, inputs)
    if tr.outcome != "completed" or tr.caught:
        return None
    return tr


class ProverCheck(TraceCheck):
    components = REAL_PROVER
    toggles = ()
    shadow_budget = 24
    wire_budget = 1500

    def cfg(self, rng):
        return {"backend": rng.choice(W.DICT_BACKENDS), "bitlength": rng.choice([2, 3, 3, 4, 4, 5]),
                "resolution": rng.choice([0, 1, 2]), "value_bias": "tiny", "max_nesting": 0,
                "p_try": 0.0, "p_bool_cond": 1.0, "fxp": rng.random() < 0.25}

    def attack_trace(self, case, tr, rng, viol, probes, faults):
        """Wire-mode search + shadow-mode re-runs on one honest trace; appends to viol."""
        plan = case["plan"]
        trace = PV.Trace(tr)
        base = trace.base_assignment()
        if trace.unsat(base):
            probes["honest_trace_unsat_discarded"] = probes.get("honest_trace_unsat_discarded", 0) + 1
            return trace
        atk = PV.Attack(trace, PV.plan_consts(plan))
        b = plan["cfg"]["bitlength"]
        for lies, v, a, rep in atk.search(rng, b, self.wire_budget):
            r = v[1]
            s = dict(r["desc"])
            s["mode"] = "wire"
            s["scale"] = atk.scale(v[2], b)
            s["lie_scale"] = atk.lie_scale(a, b)
            if any(x["site"] == s for x in viol):
                continue
            viol.append({"property": self.prop, "oracle": "second_assignment" if v[0] == "differs" else
                         "nonboolean_result", "site": s,
                         "detail": "lies %s (re-derived=%s) satisfy all %d constraints; %s = %d instead of %d" % (
                             {k: x for k, x in lies.items()}, rep, len(trace.cons), r["name"], v[2], r["value"])})
        faults["lie-wire"] = faults.get("lie-wire", 0) + atk.evals
        probes["rederivation_steps"] = probes.get("rederivation_steps", 0) + atk.repairs
        # shadow mode
        if not viol and trace.hints:
            npriv_in = sum(1 for o in trace.operands if o < 0)
            nsh = 0
            hint_order = list(range(len(trace.hints)))
            rng.shuffle(hint_order)
            for hi in hint_order:
                if nsh >= self.shadow_budget or viol:
                    break
                k = trace.hints[hi]
                hv = trace.priv[-k - 1]
                for cand in (hv + 1, hv - 1, 1 - hv, 0, -hv):
                    if cand == hv:
                        continue
                    if nsh >= self.shadow_budget:
                        break
                    nsh += 1
                    # hint index among PrivVal calls after the inputs = position in trace.priv minus priv inputs
                    d = PV.run_plan(plan, nocheck=True, hook=PV.shadow_hook(-k - 1 - npriv_in, cand, npriv_in))
                    if d.outcome != "completed" or d.caught:
                        probes["shadow_run_crashed"] = probes.get("shadow_run_crashed", 0) + 1
                        continue
                    dt = PV.Trace(d)
                    if dt.kinds != trace.kinds or dt.cons != trace.cons:
                        probes["shadow_run_other_circuit"] = probes.get("shadow_run_other_circuit", 0) + 1
                        continue
                    da = dt.base_assignment()
                    if any(da[o] != base[o] for o in trace.operands):
                        continue
                    faults["lie-shadow"] = faults.get("lie-shadow", 0) + 1
                    if dt.unsat(da):
                        continue
                    for r in trace.results:
                        val = dt.ev(r["lc"], da)
                        if val != r["value"] or (r["t"] == "B" and val not in (0, 1)):
                            s = dict(r["desc"])
                            s["mode"] = "shadow"
                            s["scale"] = atk.scale(val, b)
                            s["lie_scale"] = "shadow"
                            viol.append({"property": self.prop, "oracle": "second_assignment", "site": s,
                                         "detail": "shadow lie hint#%d := %d: all constraints satisfied, %s = %d "
                                                   "instead of %d" % (-k - 1 - npriv_in, cand, r["name"], val,
                                                                      r["value"])})
                            break
                    if viol:
                        break
        return trace


class C02(ProverCheck):
    name = "C02"
    prop = "C02"
    budget = {"quick": 400, "thorough": 12000}
    weights = VALUE_OPS
    rule = ("plans of 1-3 value-returning operations (every operator, the three operand-kind combinations, "
            "selection, bit round trips, boolean and fixed-point operators) at bitlength 2-5 on tiny/boundary "
            "operands; one honest run, then dishonest executions: every hint wire x ~40 candidate values "
            "(small deltas, powers of two, 0/1/-1, 1-v, -v, field quotients x*y^-1 of operand and constant "
            "values) with and without forward re-derivation of dependent hints, adjacent pairs, and shadow "
            "lies re-executed through the library; violation = all constraints satisfied with the operands "
            "unchanged and a result different (or a boolean result not 0/1). non-trivial = distinct plans "
            "with an honest satisfied trace and at least one hint wire attacked")

    def gen(self, rng, i, tier):
        cfg = self.cfg(rng)
        plan = P.generate(rng, cfg, self.weights, n_stmts=rng.choice([1, 1, 2, 3]))
        return {"plan": plan, "seed": rng.randrange(1 << 30)}

    def run(self, case):
        plan = case["plan"]
        rng = _random.Random(case["seed"])
        tr = honest(plan)
        probes, faults, viol = {}, {}, []
        if tr is None:
            return {"violations": [], "digest": "discard", "nontrivial": None, "events": 0, "faults": {},
                    "probes": {"honest_run_raised_discarded": 1}, "sigs": [], "discarded": True}
        trace = self.attack_trace(case, tr, rng, viol, probes, faults)
        nt = P.plan_digest(plan) if trace.hints and not probes.get("honest_trace_unsat_discarded") else None
        return {"violations": viol, "digest": E.sha((tr.digest_material(), [v["detail"] for v in viol],
                                                     faults, probes)),
                "nontrivial": nt, "events": tr.steps + faults.get("lie-wire", 0) + faults.get("lie-shadow", 0),
                "faults": faults, "probes": probes,
                "sigs": [E.sha((r["desc"].get("op"), r["desc"].get("kinds"), plan["cfg"]["bitlength"]))
                         for r in trace.results], "outcome": tr.outcome}


E.register(C02())


# ---------------------------------------------------------------------------------------
def _boundary(rng, center, bl, extra=()):
    vals = {center - 1, center, center + 1, center + (1 << (bl - 1)), center - (1 << (bl - 1)),
            center + (1 << bl) - 1, center + (1 << bl), center - (1 << bl), center + (1 << (bl - 1)) - 1,
            center - (1 << (bl - 1)) - 1, center + (1 << bl) + 1}
    vals.update(extra)
    vals = sorted(vals)
    rng.shuffle(vals)
    return vals


class C03(ProverCheck):
    name = "C03"
    prop = "C03"
    budget = {"quick": 500, "thorough": 20000}
    kinds = ["lt", "le", "eq", "ne", "gt", "ge", "zero", "nonzero", "positive", "positive_n", "range",
             "range_secret", "tobool", "bits_n", "bool_cmp", "fxp_cmp", "fxp_range", "gt", "lt", "positive_n",
             "range"]
    rule = ("one assertion or type declaration per plan (assert_lt/le/eq/ne/gt/ge on integer, boolean and "
            "fixed-point operands with secret and constant right-hand sides, assert_zero/nonzero, "
            "assert_positive with and without an explicit width, assert_range with constant and secret "
            "bounds, LinCombBool(x), to_bits(n)), executed on up to 12 operand vectors placed on both sides "
            "of the relation (x-1, x, x+1, +-2^(b-1), 2^b-1, 2^b, ...). Per vector: run with checks on "
            "(accepted / rejected by the run-time check); rejected => run again as a prover who removed the "
            "checks (ignore_errors) and, when the honest hints do not already satisfy the circuit, lie on "
            "every hint wire with forward re-derivation; accepted => trace must be satisfied. "
            "non-trivial = distinct (plan, vector) pairs that reached a verdict")

    def gen(self, rng, i, tier):
        cfg = self.cfg(rng)
        cfg["fxp"] = True
        bl = cfg["bitlength"]
        kind = self.kinds[i % len(self.kinds)]
        A = {"ref": 0, "t": "I"}
        Bv = {"ref": 1, "t": "I"}
        inputs = [{"kind": "priv", "t": "I", "v": 0}]
        vectors = []
        secret_rhs = rng.random() < 0.5
        if kind in ASSERT_CMP_KINDS:
            b = rng.choice([0, 1, 2, 3, -1, (1 << (bl - 1)) - 1, -(1 << (bl - 1))])
            if secret_rhs:
                inputs.append({"kind": rng.choice(["priv", "pub"]), "t": "I", "v": b})
                stmt = {"s": "assert", "kind": kind, "args": [A, Bv]}
                vectors = [[a, b] for a in _boundary(rng, b, bl)]
            else:
                stmt = {"s": "assert", "kind": kind, "args": [A, {"k": b, "t": "I"}]}
                vectors = [[a] for a in _boundary(rng, b, bl)]
        elif kind in ("zero", "nonzero"):
            stmt = {"s": "assert", "kind": kind, "args": [A]}
            vectors = [[a] for a in (0, 1, -1, 2, (1 << bl), -(1 << bl))]
        elif kind in ("positive", "positive_n", "bits_n"):
            n = None if kind == "positive" else rng.randrange(1, bl + 3)
            if kind == "bits_n":
                stmt = {"s": "let", "e": {"call": "bits_roundtrip", "args": [A], "n": n, "t": "I"}}
            else:
                stmt = {"s": "assert", "kind": "positive", "args": [A], "bits": n}
            w = n if n is not None else bl
            vectors = [[a] for a in sorted({-1, 0, 1, (1 << w) - 1, 1 << w, (1 << w) + 1, (1 << bl) - 1, 1 << bl,
                                            (1 << bl) + 1, (1 << (w - 1)) if w > 0 else 0, -(1 << w)})]
        elif kind in ("range", "range_secret"):
            lo = rng.choice([0, 1, -2, 2])
            hi = lo + rng.choice([0, 1, 2, 5, (1 << bl) - 1])
            ext = [lo - 1, lo, lo + 1, hi - 1, hi, hi + 1]
            if kind == "range_secret":
                inputs += [{"kind": "priv", "t": "I", "v": lo}, {"kind": "priv", "t": "I", "v": hi}]
                stmt = {"s": "assert", "kind": "range", "args": [A, {"ref": 1, "t": "I"}, {"ref": 2, "t": "I"}]}
                vectors = [[a, lo, hi] for a in ext] + [[lo, lo, lo - 1], [lo, lo + 1, lo]]
            else:
                stmt = {"s": "assert", "kind": "range", "args": [A, {"k": lo, "t": "I"}, {"k": hi, "t": "I"}]}
                vectors = [[a] for a in ext]
        elif kind == "tobool":
            stmt = {"s": "let", "e": {"call": "tobool", "args": [A], "t": "B"}}
            vectors = [[0], [1], [2], [-1]]
        elif kind == "bool_cmp":
            inputs = [{"kind": "priv", "t": "B", "v": 0}, {"kind": "priv", "t": "B", "v": 0}]
            stmt = {"s": "assert", "kind": rng.choice(list(ASSERT_CMP_KINDS)),
                    "args": [{"ref": 0, "t": "B"}, {"ref": 1, "t": "B"}]}
            vectors = [[0, 0], [0, 1], [1, 0], [1, 1]]
        elif kind in ("fxp_cmp", "fxp_range"):
            res = cfg["resolution"]
            u = 1.0 / (1 << res)
            b = rng.choice([0.0, 1.0, 1.5, -0.5, 2.0])
            b = round(b / u) * u
            inputs = [{"kind": "priv", "t": "F", "v": 0.0}]
            if kind == "fxp_cmp":
                inputs.append({"kind": "priv", "t": "F", "v": b})
                stmt = {"s": "assert", "kind": rng.choice(list(ASSERT_CMP_KINDS)),
                        "args": [{"ref": 0, "t": "F"}, {"ref": 1, "t": "F"}]}
                vectors = [[b + d * u, b] for d in (-2, -1, 0, 1, 2, 1 << bl, -(1 << bl))]
            else:
                hi = b + 2 * u
                stmt = {"s": "assert", "kind": "range", "args": [{"ref": 0, "t": "F"}, {"k": b, "t": "F"},
                                                                  {"k": hi, "t": "F"}]}
                vectors = [[b + d * u] for d in (-1, 0, 1, 2, 3)]
        plan = {"cfg": cfg, "inputs": inputs, "body": [stmt]}
        return {"plan": plan, "vectors": vectors[:12], "seed": rng.randrange(1 << 30)}

    def stmt_desc(self, plan):
        s = plan["body"][0]

        def kd(x):
            return "k" if "k" in x else x["t"]
        if s["s"] == "assert":
            d = {"op": "assert_" + s["kind"], "kinds": ",".join(kd(a) for a in s["args"])}
            if s.get("bits") is not None:
                d["width"] = "explicit"
            return d
        e = s["e"]
        d = {"op": e["call"], "kinds": ",".join(kd(a) for a in e["args"])}
        if e.get("n") is not None:
            d["width"] = "explicit"
        return d

    def run(self, case):
        plan = case["plan"]
        rng = _random.Random(case["seed"])
        bl = plan["cfg"]["bitlength"]
        desc = self.stmt_desc(plan)
        viol, probes, faults = [], {}, {}
        verdicts = []
        events = 0
        ntl = []

        def add(oracle, mode, detail):
            s = dict(desc)
            s["mode"] = mode
            if not any(v["oracle"] == oracle and v["site"] == s for v in viol):
                viol.append({"property": "C03", "oracle": oracle, "site": s, "detail": detail})

        for vec in case["vectors"]:
            checked = PV.run_plan(plan, inputs=vec)
            events += checked.steps
            if checked.outcome == "completed" and not checked.caught:
                accepted = True
            elif checked.outcome.split(":")[-1] in ("AssertionError", "ValueError"):
                accepted = False
            else:
                probes["vector_other_exception"] = probes.get("vector_other_exception", 0) + 1
                verdicts.append((vec, checked.outcome))
                continue
            if accepted:
                t = PV.Trace(checked)
                bad = t.unsat(t.base_assignment())
                probes["accepted_vectors"] = probes.get("accepted_vectors", 0) + 1
                if bad:
                    add("accepted_but_unsatisfied", "honest",
                        "operands %r accepted by the run-time check, constraints %r not satisfied" % (vec, bad[:3]))
                verdicts.append((vec, "accepted", not bad))
                ntl.append(vec)
                continue
            probes["rejected_vectors"] = probes.get("rejected_vectors", 0) + 1
            d = PV.run_plan(plan, inputs=vec, nocheck=True)
            events += d.steps
            if d.outcome != "completed" or d.caught:
                # the library raises even with checks off (e.g. LinCombBool of a non-boolean): the prover
                # edits the operand wire of an accepted execution instead
                probes["nocheck_run_raised"] = probes.get("nocheck_run_raised", 0) + 1
                verdicts.append((vec, "rejected", "nocheck-raised"))
                continue
            t = PV.Trace(d)
            atk = PV.Attack(t, PV.plan_consts(plan))
            faults["nocheck"] = faults.get("nocheck", 0) + 1
            if not t.unsat(atk.base):
                add("assertion_not_enforced", "honest-hints",
                    "operands %r rejected at run time (%s) but the hints the library computes with checks off "
                    "satisfy all %d constraints" % (vec, checked.outcome_msg[:60], len(t.cons)))
                verdicts.append((vec, "rejected", "sat-honest"))
                ntl.append(vec)
                continue
            found = PV.search_sat(atk, rng, bl)
            faults["lie-wire"] = faults.get("lie-wire", 0) + atk.evals + atk.repairs
            if found is not None:
                add("assertion_not_enforced", "wire",
                    "operands %r rejected at run time but hint lies %r satisfy all %d constraints" % (
                        vec, found[0], len(t.cons)))
            verdicts.append((vec, "rejected", "sat-lie" if found else "unsat"))
            ntl.append(vec)
        return {"violations": viol, "digest": E.sha((verdicts, [v["detail"] for v in viol])),
                "nontrivial": None, "nontrivial_list": [E.sha((plan["body"], plan["cfg"]["bitlength"], v))
                                                        for v in ntl],
                "events": events + faults.get("lie-wire", 0), "faults": faults, "probes": probes,
                "sigs": [E.sha((desc, v[1:])) for v in verdicts], "outcome": verdicts[:4]}


ASSERT_CMP_KINDS = ("lt", "le", "eq", "ne", "gt", "ge")
E.register(C03())
