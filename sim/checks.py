"""The registered checks (one per claimed property)."""
import copy

from . import engine as E
from . import plan as P
from . import tracesim as T
from . import world as W

REAL_TRACE = ("real: pysnark/runtime.py, boolean.py, fixedpoint.py, branching.py, array.py and the "
              "selected backend module (snarkjs / zkinterface x3) imported fresh from /repo for every "
              "run; stub: the `flatbuffers` package for the zkinterface backends (verif/stubs/py)")


def swarm_cfg(rng, backends=W.DICT_BACKENDS, fxp_p=0.5, bits=(3, 4, 5, 6, 8, 8, 16)):
    cfg = {
        "backend": rng.choice(backends),
        "bitlength": rng.choice(bits),
        "resolution": rng.choice([0, 1, 2, 3, 4, 8]),
        "value_bias": rng.choice(["tiny", "mixed", "mixed", "field"]),
        "max_nesting": rng.choice([0, 1, 2, 3]),
        "p_try": rng.choice([0.0, 0.5, 0.9, 1.0]),
        "p_bool_cond": rng.choice([0.0, 0.5, 1.0]),
        "fxp": rng.random() < fxp_p,
        # some regions get a PUBLIC condition (generic code called with a plain value): 1 is transparent, 0 refused
        "p_plain_cond": 0.06,
    }
    if cfg["backend"] == "zkinterface":
        # configuration fault: the generic zkinterface backend is given another field through its public
        # set_modulus() only AFTER pysnark.runtime has been imported (the draw comes from a generator of its own so
        # that the plans of all other runs stay what they were)
        r2 = _random.Random("late-modulus/%r" % sorted(cfg.items()))
        if r2.random() < 0.3:
            cfg["late_modulus"] = r2.choice([W.BLS12_381, W.ED25519])
    return cfg


def swarm_weights(rng, base, toggles):
    """Each toggle kind is switched off with p = 1/2 so that rare mixes get runs to themselves."""
    w = dict(base)
    for k in toggles:
        if rng.random() < 0.5:
            w[k] = 0
    return w


def draw_faults(rng, kinds, plan):
    """At most one abort per run in most runs; none in ~40 % of runs."""
    f = {}
    u = rng.random()
    if "abort_seam" in kinds and u < 0.35:
        f["abort_seam"] = 1 + int(rng.random() ** 2 * 120)
        if rng.random() < 0.2:
            f["abort_exc"] = "interrupt"
    elif "abort_stmt" in kinds and u < 0.6:
        f["abort_stmt"] = 1 + rng.randrange(0, 3 * max(1, P.count_stmts(plan["body"])))
    return f


def late_modulus_tail(plan):
    """Runs whose field was switched after import get one operand that wraps around that field and a few
    operations whose shadow values have to be reduced modulo it (draws from a generator of its own)."""
    q = plan["cfg"].get("late_modulus")
    if not q:
        return
    r2 = _random.Random("late-tail/%s" % P.plan_digest(plan))
    if r2.random() < 0.3:
        return
    n_i = sum(1 for i in plan["inputs"] if i["t"] == "I")
    plan["inputs"].append({"kind": "priv", "t": "I", "v": r2.choice([(1 << 40) + 1, q - 1, q + 2, -(1 << 70) - 7,
                                                                     W.BN254 - 1, 5, 7])})
    plan["inputs"].append({"kind": "priv", "t": "I", "v": r2.randrange(0, 4)})
    big, small = {"ref": n_i, "t": "I"}, {"ref": n_i + 1, "t": "I"}
    tail = []
    for _ in range(r2.randrange(1, 4)):
        u = r2.random()
        if u < 0.5:
            e = {"op": "**", "a": big, "b": small, "t": "I"}
        elif u < 0.7:
            e = {"op": "*", "a": big, "b": big, "t": "I"}
        elif u < 0.85:
            e = {"op": "==", "a": big, "b": {"k": r2.choice([0, 1]), "t": "I"}, "t": "B"}
        else:
            e = {"op": "/", "a": big, "b": {"k": r2.choice([3, 5, 7]), "t": "I"}, "t": "I"}
        tail.append({"s": "let", "e": e, "try": True})
    plan["body"].extend(tail)


def dead_field_zero_tail(plan):
    """One run in eight ends with a region (usually not taken) in which a value that is zero in the field but not as
    an integer is met by the zero / equality tests and assertions: an inexact division by a public constant, undone by
    a multiplication, compared with the original (draws from a generator of its own)."""
    if plan["cfg"].get("max_nesting", 0) < 1:
        return
    r2 = _random.Random("field-zero-tail/%s" % P.plan_digest(plan))
    if r2.random() > 0.125:
        return
    k = r2.choice([3, 5, 7])
    n_i = sum(1 for i in plan["inputs"] if i["t"] == "I")
    n_b = sum(1 for i in plan["inputs"] if i["t"] == "B")
    if r2.random() < 0.25:
        # ... or a value of several thousand decimal digits (nothing reduces or range-checks a product there)
        plan["inputs"].append({"kind": "priv", "t": "I", "v": 10 ** 300})
        plan["inputs"].append({"kind": "priv", "t": "B", "v": 0})
        x, c = {"ref": n_i, "t": "I"}, {"ref": n_b, "t": "B"}
        big = {"op": "**", "a": x, "b": {"k": 16, "t": "I"}, "t": "I"}
        body = [{"s": "assert", "kind": r2.choice(["lt", "le", "eq", "ne", "gt", "ge"]),
                 "args": [big, r2.choice([{"k": 5, "t": "I"}, x])], "try": True} for _ in range(r2.randrange(1, 3))]
        plan["body"].append({"s": "guarded", "cond": c, "body": body, "try": True})
        return
    plan["inputs"].append({"kind": "priv", "t": "I", "v": r2.choice([1, 2, 4, 5, k, 2 * k])})
    plan["inputs"].append({"kind": "priv", "t": "B", "v": r2.choice([0, 0, 0, 1])})
    x, c = {"ref": n_i, "t": "I"}, {"ref": n_b, "t": "B"}
    back = {"op": "*", "a": {"op": "/", "a": x, "b": {"k": k, "t": "I"}, "t": "I"}, "b": {"k": k, "t": "I"}, "t": "I"}
    body = []
    for _ in range(r2.randrange(1, 4)):
        u = r2.random()
        if u < 0.25:
            body.append({"s": "assert", "kind": r2.choice(["ne", "eq"]), "args": [back, x], "try": True})
        elif u < 0.45:
            body.append({"s": "assert", "kind": r2.choice(["nonzero", "zero"]),
                         "args": [{"op": "-", "a": back, "b": x, "t": "I"}], "try": True})
        elif u < 0.75:
            body.append({"s": "let", "e": {"op": r2.choice(["==", "!="]), "a": back, "b": x, "t": "B"}, "try": True})
        else:
            body.append({"s": "let", "e": {"call": r2.choice(["check_zero", "check_nonzero"]),
                                           "args": [{"op": "-", "a": back, "b": x, "t": "I"}], "t": "B"}, "try": True})
    plan["body"].append({"s": "guarded", "cond": c, "body": body, "try": True})


def commuted_factors_tail(plan):
    """One run in six ends with products whose two factors are linear combinations of the same variables built in
    different orders (and sums in which a variable cancels): what a backend stores per term, in which order, must not
    matter (draws from a generator of its own)."""
    r2 = _random.Random("commuted-tail/%s" % P.plan_digest(plan))
    if r2.random() > 1 / 6:
        return
    n_i = sum(1 for i in plan["inputs"] if i["t"] == "I")
    plan["inputs"].append({"kind": "priv", "t": "I", "v": r2.choice([2, 3, 5, -4])})
    plan["inputs"].append({"kind": r2.choice(["priv", "pub"]), "t": "I", "v": r2.choice([1, 4, 6, -2])})
    x, y = {"ref": n_i, "t": "I"}, {"ref": n_i + 1, "t": "I"}

    def lin(first, second, c1, c2):
        return {"op": "+", "a": {"op": "*", "a": first, "b": {"k": c1, "t": "I"}, "t": "I"},
                "b": {"op": "*", "a": second, "b": {"k": c2, "t": "I"}, "t": "I"}, "t": "I"}
    for _ in range(r2.randrange(1, 3)):
        u = r2.random()
        if u < 0.6:
            e = {"op": "*", "a": lin(x, y, r2.choice([1, 2, 3]), r2.choice([1, 3, -1])),
                 "b": lin(y, x, r2.choice([1, 5, 2]), r2.choice([7, 1, -2])), "t": "I"}
        elif u < 0.8:
            e = {"op": "*", "a": {"op": "-", "a": lin(x, y, 1, 1), "b": y, "t": "I"}, "b": lin(y, x, 2, 1), "t": "I"}
        else:
            e = {"op": "==", "a": lin(x, y, 2, 3), "b": lin(y, x, 3, 2), "t": "B"}
        plan["body"].append({"s": "let", "e": e, "try": True})


def dead_table_tail(plan):
    """One run in ten ends with a table of public constants that is read at a secret index inside a region that is
    (usually) not taken - the index may be anything there, negative included - and the value read is used in a
    product (draws from a generator of its own)."""
    if plan["cfg"].get("max_nesting", 0) < 1:
        return
    r2 = _random.Random("dead-table/%s" % P.plan_digest(plan))
    if r2.random() > 0.1:
        return
    n_i = sum(1 for i in plan["inputs"] if i["t"] == "I")
    n_b = sum(1 for i in plan["inputs"] if i["t"] == "B")
    n_a = sum(1 for s_ in plan["body"] if s_["s"] in ("array", "aderive"))
    size = r2.randrange(2, 6)
    plan["inputs"].append({"kind": "priv", "t": "I", "v": r2.choice([-1, -2, -size, size, size + 3, 0, 1])})
    plan["inputs"].append({"kind": "priv", "t": "B", "v": r2.choice([0, 0, 0, 1])})
    ix, c = {"ref": n_i, "t": "I"}, {"ref": n_b, "t": "B"}
    plan["body"].append({"s": "array", "els": [{"k": r2.choice([3, 5, 7, 11, 2]), "t": "I"} for _ in range(size)]})
    read = {"call": "aget", "arr": n_a, "ix": ix, "t": "I"}
    body = [{"s": "let", "e": {"op": "*", "a": read, "b": r2.choice([read, {"ref": 0, "t": "I"}]), "t": "I"}, "try": True}]
    if r2.random() < 0.5:
        body.append({"s": "assert", "kind": "lt", "args": [read, {"k": 100, "t": "I"}], "try": True})
    plan["body"].append({"s": "guarded", "cond": c, "body": body, "try": True})


def local_block_tail(plan):
    """One run in eight ends with a guarded region whose function keeps block variables of its own (a local
    BranchingValues object with one _if block): the body of the block may raise, which leaves the block open; the region
    restores the guard, the abandoned object is collected afterwards (draws from a generator of its own)."""
    if plan["cfg"].get("max_nesting", 0) < 1:
        return
    r2 = _random.Random("local-block/%s" % P.plan_digest(plan))
    if r2.random() > 0.125:
        return
    n_i = sum(1 for i in plan["inputs"] if i["t"] == "I")
    n_b = sum(1 for i in plan["inputs"] if i["t"] == "B")
    plan["inputs"].append({"kind": "priv", "t": "I", "v": r2.choice([7, 7, 2, 0, -3])})
    plan["inputs"].append({"kind": "priv", "t": "B", "v": r2.choice([1, 1, 0])})
    plan["inputs"].append({"kind": "priv", "t": "B", "v": r2.choice([1, 1, 1, 0])})
    x, c1, c2 = {"ref": n_i, "t": "I"}, {"ref": n_b, "t": "B"}, {"ref": n_b + 1, "t": "B"}
    body = []
    if r2.random() < 0.7:
        body.append({"s": "assert", "kind": "lt", "args": [x, {"k": 5, "t": "I"}]})
    if r2.random() < 0.4:
        body.append({"s": "let", "e": {"op": "*", "a": x, "b": x, "t": "I"}, "try": r2.random() < 0.5})
    blk = {"s": "local_block", "cond": c2, "value": {"op": "+", "a": x, "b": {"k": 1, "t": "I"}, "t": "I"},
           "body": body, "bug": r2.random() < 0.3, "explicit": r2.random() < 0.3}
    inner = [blk]
    if r2.random() < 0.3:
        inner = [{"s": "guarded", "cond": c2, "body": inner, "try": r2.random() < 0.5}]
    if r2.random() < 0.4:
        inner.append({"s": "let", "e": {"op": "+", "a": x, "b": x, "t": "I"}})
    plan["body"].append({"s": "guarded", "cond": c1, "body": inner, "try": True})
    plan["body"].append({"s": "assert", "kind": "eq", "args": [{"ref": 0, "t": "I"}, {"ref": 0, "t": "I"}], "try": True})


def boundary_region_tail(plan):
    """One run in eight ends with a region guarded by a secret condition (usually true) in which operands at the
    edges of the signed bitlength range meet in comparisons, shifts and bit operations: the Python-level self check of
    a constraint is skipped under a guard, so only the recorded witness can tell (draws from a generator of its own)."""
    if plan["cfg"].get("max_nesting", 0) < 1:
        return
    r2 = _random.Random("edge-tail/%s" % P.plan_digest(plan))
    if r2.random() > 0.125:
        return
    b = plan["cfg"]["bitlength"]
    edge = [-(1 << (b - 1)), (1 << (b - 1)) - 1, 1 << (b - 1), (1 << b) - 1, 1 << b, 0, -1, -(1 << b)]
    n_i = sum(1 for i in plan["inputs"] if i["t"] == "I")
    n_b = sum(1 for i in plan["inputs"] if i["t"] == "B")
    plan["inputs"].append({"kind": "priv", "t": "I", "v": r2.choice(edge)})
    plan["inputs"].append({"kind": "priv", "t": "I", "v": r2.choice(edge)})
    plan["inputs"].append({"kind": "priv", "t": "B", "v": r2.choice([1, 1, 1, 0])})
    x, y, c = {"ref": n_i, "t": "I"}, {"ref": n_i + 1, "t": "I"}, {"ref": n_b, "t": "B"}
    body = []
    for _ in range(r2.randrange(1, 4)):
        u = r2.random()
        if u < 0.6:
            e = {"op": r2.choice(["<", "<=", ">", ">="]), "a": x, "b": y, "t": "B"}
        elif u < 0.75:
            e = {"call": "check_positive", "args": [{"op": "-", "a": x, "b": y, "t": "I"}], "t": "B"}
        elif u < 0.9:
            e = {"un": "abs", "a": {"op": "-", "a": y, "b": x, "t": "I"}, "t": "I"}
        else:
            e = {"op": ">>", "a": x, "b": {"k": 1, "t": "I"}, "t": "I"}
        body.append({"s": "let", "e": e, "try": True})
    plan["body"].append({"s": "guarded", "cond": c, "body": body, "try": True})


class TraceCheck:
    """Base for checks decided by tracesim."""
    props = ()
    weights = {}
    toggles = ("div", "bits", "shift", "pow", "unary", "boolop", "check", "ite", "tobits", "tobool",
               "assert", "val", "set_ie")
    fault_kinds = ()
    backends = W.DICT_BACKENDS
    components = REAL_TRACE
    assumptions = []
    nontrivial_probe = None

    def cfg(self, rng):
        return swarm_cfg(rng, self.backends)

    def gen(self, rng, i, tier):
        cfg = self.cfg(rng)
        w = swarm_weights(rng, self.weights, self.toggles)
        plan = P.generate(rng, cfg, w)
        late_modulus_tail(plan)
        boundary_region_tail(plan)
        commuted_factors_tail(plan)
        dead_table_tail(plan)
        return {"plan": plan, "faults": draw_faults(rng, self.fault_kinds, plan)}

    def execute(self, case):
        return T.TraceRun(case["plan"], case.get("faults"), props=self.props).run()

    def result(self, tr, case, extra_viol=()):
        rec = tr.w.rec
        faults = {}
        if tr.probes.get("abort_seam_fired"):
            faults["abort@seam"] = 1
        if tr.probes.get("abort_stmt_fired"):
            faults["abort@stmt"] = 1
        if tr.probes.get("abort_deepcopy_fired"):
            faults["abort@deepcopy"] = 1
        ncaught = len(tr.caught)
        if ncaught:
            faults["caught"] = ncaught
        if tr.probes.get("step_in_dead_region"):
            faults["guard0"] = 1
        if tr.probes.get("set_ie"):
            faults["user_nocheck"] = tr.probes["set_ie"]
        viol = [dict(v) for v in tr.violations if v["property"] == self.prop] + list(extra_viol)
        if tr.type_leak:
            viol = []
        nt = None
        if self.is_nontrivial(tr):
            nt = P.plan_digest({"p": case["plan"], "f": case.get("faults")})
        return {
            "violations": viol,
            "digest": E.sha(tr.digest_material()),
            "nontrivial": nt,
            "events": tr.steps + rec.seam_calls,
            "faults": faults,
            "probes": dict(tr.probes),
            "sigs": [E.sha(s) for s in tr.state_sigs if not (isinstance(s, tuple) and s and s[0] == "C04")],
            "outcome": tr.outcome,
        }

    def is_nontrivial(self, tr):
        return len(tr.w.rec.cons) > 0

    def run(self, case):
        tr = self.execute(case)
        return self.result(tr, case)

    def shrink_candidates(self, case):
        return P.shrink_plan_candidates(case)


# ---------------------------------------------------------------------------------------
class C08(TraceCheck):
    name = "C08"
    prop = "C08"
    props = ("C08",)
    budget = {"quick": 4000, "thorough": 200000}
    weights = {"guarded": 9, "ite_call": 4, "let": 8, "assert": 3, "set_ie": 1.0, "fxp": 1, "def_helper": 2.5,
               "call_helper": 6}
    toggles = ("div", "bits", "shift", "pow", "boolop", "check", "tobits", "tobool", "assert", "set_ie",
               "ite_call", "def_helper")
    fault_kinds = ("abort_seam", "abort_stmt")
    rule = ("seeded plans of nested guarded regions (decorator form and callable if_then_else branches, "
            "raw 0/1 and boolean-typed conditions, guard values 0/1 per level), left by return, by a "
            "value-caused exception of the body, by an exception injected at a statement boundary or "
            "at the n-th backend seam call; oracle after every statement and in a finally after every "
            "region: snapshot model of (guard, error mode, ONE) by identity, conjunction of enclosing "
            "condition values inside; one plan in eight ends with a region whose function keeps block variables of "
            "its own with an _if block that an exception leaves open (the abandoned object is collected at fixed "
            "points of the schedule and the model is evaluated again). non-trivial = distinct (plan, fault "
            "schedule) in which at least one region was actually left (by return or exception)")

    def cfg(self, rng):
        c = swarm_cfg(rng, self.backends, fxp_p=0.2, bits=(3, 4, 6, 8))
        c["max_nesting"] = rng.choice([1, 2, 3, 3])
        c["p_nonbool_cond"] = 0.12
        c["p_plain_cond"] = 0.12
        return c

    def is_nontrivial(self, tr):
        return bool(tr.probes.get("region_left_by_return") or tr.probes.get("region_left_by_exception")
                    or tr.probes.get("abort_inside_block_api"))

    def gen(self, rng, i, tier):
        if i % 5 == 4:
            # block-API histories with an abort at the n-th backend seam call: an exception raised inside
            # _endif/_else/_elif/_endwhile/_endfor (the merge of tracked variables) must leave the guard
            # state of before the block
            cfg = {"backend": rng.choice(W.DICT_BACKENDS), "bitlength": rng.choice([8, 16]), "resolution": 2,
                   "max_nesting": rng.choice([1, 2]), "p_try": 0.0, "fxp": False}
            plan = BlockGen(rng, cfg).plan()
            case = {"plan": plan, "faults": {"abort_seam": 1 + int(rng.random() ** 1.5 * 150)}, "block": True,
                    "target": rng.choice(["exit", "exit", "enter", None]), "pick": rng.randrange(1 << 20)}
            if rng.random() < 0.3:
                # the snapshot of the tracked variables (copy.deepcopy inside the block API) fails on its n-th call:
                # a variable that cannot be copied, or memory running out
                case["faults"] = {"abort_deepcopy": 1 + int(rng.random() ** 1.5 * 40)}
                case["target"] = None
            return case
        case = TraceCheck.gen(self, rng, i, tier)
        local_block_tail(case["plan"])
        return case

    def run(self, case):
        if not case.get("block"):
            return TraceCheck.run(self, case)
        faults = dict(case["faults"])
        if case.get("target"):
            # place the fault inside the chosen library function: a fault-free pass locates the seam calls
            # made from it, the pick selects one (deterministic in plan and code)
            def hook(t):
                t.w.rec.trace_frames = (case["target"],)
            p0 = T.TraceRun(case["plan"], props=(), world_hook=hook).run()
            hits = p0.w.rec.frame_hits.get(case["target"], [])
            if hits:
                faults["abort_seam"] = hits[case["pick"] % len(hits)]
        hook = None
        if faults.get("abort_deepcopy"):
            nth = faults["abort_deepcopy"]

            def hook(t):
                import copy as _copy
                state = {"n": 0}

                class FaultyCopy:
                    copy = staticmethod(_copy.copy)

                    @staticmethod
                    def deepcopy(x, memo=None):
                        state["n"] += 1
                        if state["n"] == nth:
                            t.probe("abort_deepcopy_fired")
                            raise W.InjectedFault("injected failure of deepcopy call %d" % nth)
                        return _copy.deepcopy(x) if memo is None else _copy.deepcopy(x, memo)
                t.w.branching.copy = FaultyCopy
        tr = T.TraceRun(case["plan"], {k: v for k, v in faults.items() if k != "abort_deepcopy"}, props=(),
                        world_hook=hook).run()
        viol = []
        rt = tr.w.runtime
        fired = bool(tr.probes.get("abort_seam_fired") or tr.probes.get("abort_deepcopy_fired"))
        if fired and tr.outcome == "raised:InjectedFault" and tr.exc_plan_line in tr.gen.api_lines:
            depth = tr.gen.api_lines[tr.exc_plan_line]
            in_exit = any(f in ("exit", "end", "enter", "backup") for f in tr.exc_lib_frames)
            tr.probe("abort_inside_block_api")
            if in_exit:
                tr.probe("abort_inside_block_exit")
            if any(f in ("enter", "backup") for f in tr.exc_lib_frames):
                tr.probe("abort_inside_block_enter")
            if depth == 0 and in_exit:
                g0, ie0, one0 = tr.w.initial
                bad = []
                if rt.guard is not g0:
                    bad.append("guard")
                if rt.LinComb.ONE is not rt.LinComb.ONE_SAFE:
                    bad.append("ONE")
                if bool(rt._ignore_errors):
                    bad.append("ignore_errors")
                if bad:
                    viol.append({"property": "C08", "oracle": "guard_leak",
                                 "site": {"how": "exception", "fields": "+".join(bad),
                                          "where": "block_enter" if any(f in ("enter", "backup") for f in tr.exc_lib_frames)
                                          else "block_exit"},
                                 "detail": "exception raised while a top-level block was being closed (%s): %s "
                                           "not restored" % ("/".join(tr.exc_lib_frames[-3:]), bad)})
        return self.result(tr, case, viol)


E.register(C08())


# ---------------------------------------------------------------------------------------
FULL_MIX = {"let": 10, "assert": 3, "guarded": 2.5, "ite_call": 1.0, "set_ie": 0.3, "val": 1,
            "array": 0.8, "aset": 0.8, "aget": 1.0, "hash": 0.12, "set_res": 0.25, "set_bl": 0.2}


class C01(TraceCheck):
    name = "C01"
    prop = "C01"
    props = ("C01",)
    budget = {"quick": 3000, "thorough": 200000}
    weights = FULL_MIX
    fault_kinds = ("abort_seam",)
    rule = ("seeded straight-line plans over the public API (all operators with the three operand-kind "
            "combinations, assertions, conversions, selection, arrays, guarded regions with both guard "
            "values, user-level ignore_errors), per-run swarm of bitlength/resolution/backend field/"
            "statement mix/value bias; after every statement every newly emitted constraint is evaluated "
            "on the recorder's own assignment modulo the hard-coded prime of the backend name; "
            "constraints emitted while the plan itself has ignore_errors(True) are exempt. non-trivial = "
            "distinct (plan, faults) with at least one non-exempt constraint evaluated")

    def is_nontrivial(self, tr):
        rec = tr.w.rec
        return any(not f for f in rec.cons_flags)


class C04(TraceCheck):
    name = "C04"
    prop = "C04"
    props = ("C04",)
    budget = {"quick": 3000, "thorough": 200000}
    weights = dict(FULL_MIX, set_ie=1.2, guarded=4)
    fault_kinds = ("abort_seam",)
    rule = ("same plan space as C01 with more weight on the error paths (user-level ignore_errors, false "
            "guards with operands invalid for the body); after every statement every secret object "
            "visible to the script (variables, list and array elements) must satisfy value mod p == "
            "wire expression evaluated on the recorder's assignment; only the earliest mismatch of a "
            "run is reported. non-trivial = distinct (plan, faults) in which at least one secret object "
            "was produced under a false guard or with error checking off")

    def is_nontrivial(self, tr):
        return bool(tr.probes.get("step_in_dead_region") or tr.probes.get("set_ie"))


def segment_diff(tr1, tr2):
    """First statement site at which the two runs' event logs differ, or None."""
    r1, r2 = tr1.w.rec, tr2.w.rec
    c1, c2 = r1.canon_cons(), r2.canon_cons()

    def seg(tr, rec, cc, lo, hi):
        out = []
        for e in rec.events[lo:hi]:
            out.append(e[0] if e[0] != "con" else ("con", cc[e[1]]))
        return out
    prev1 = prev2 = 0
    for (s1, n1), (s2, n2) in zip(tr1.marks, tr2.marks):
        if s1 != s2:
            return s1, "control flow diverged"
        if seg(tr1, r1, c1, prev1, n1) != seg(tr2, r2, c2, prev2, n2):
            return s1, "events of this statement differ (%d vs %d)" % (n1 - prev1, n2 - prev2)
        prev1, prev2 = n1, n2
    if len(tr1.marks) != len(tr2.marks):
        return (tr1.marks + tr2.marks)[min(len(tr1.marks), len(tr2.marks))][0], "different number of steps"
    return None


class C06(TraceCheck):
    name = "C06"
    prop = "C06"
    props = ()
    budget = {"quick": 2000, "thorough": 100000}
    weights = dict(FULL_MIX, set_ie=0)
    rule = ("twin executions of one generated source on two input vectors (every boolean input flipped "
            "with p=1/2 so that secret conditions take both outcomes; in 30 % of pairs both twins run "
            "under ignore_errors(True) so that one may carry invalid operands); both completing => "
            "identical allocation-kind sequence, identical canonical constraint list (terms sorted, "
            "coefficients mod p, zero terms dropped) statement by statement, identical canonical wire "
            "expression of every final variable. non-trivial = distinct plans whose twins both completed "
            "and emitted at least one constraint with different assignments")

    def cfg(self, rng):
        c = swarm_cfg(rng, self.backends)
        c["p_try"] = 0.0
        return c

    def gen(self, rng, i, tier):
        cfg = self.cfg(rng)
        w = swarm_weights(rng, self.weights, self.toggles)
        plan = P.generate(rng, cfg, w)
        nocheck = rng.random() < 0.3
        if nocheck:
            plan["body"].insert(0, {"s": "set_ie", "value": True})
        g = P.Gen(rng, cfg)
        alt = []
        for inp in plan["inputs"]:
            if inp["t"] == "B":
                alt.append(1 - inp["v"] if rng.random() < 0.5 else inp["v"])
            elif inp["t"] == "I":
                alt.append(g.small_int() if rng.random() < 0.8 else inp["v"])
            else:
                alt.append(rng.choice([0.5, 1.5, -2.25, 3.0, 0.0, 1.0, -1.0, 7.5, 0.125]))
        return {"plan": plan, "alt_inputs": alt}

    def run(self, case):
        plan = case["plan"]
        tr1 = T.TraceRun(plan, props=()).run()
        alt = list(case["alt_inputs"]) + [i["v"] for i in plan["inputs"]][len(case["alt_inputs"]):]
        tr2 = T.TraceRun(plan, inputs=alt, props=()).run()
        viol = []
        discarded = not (tr1.outcome == "completed" and tr2.outcome == "completed") or tr1.type_leak or tr2.type_leak
        nt = None
        if not discarded:
            d = segment_diff(tr1, tr2)
            if d is not None:
                site, why = d
                info = tr1.gen.sites.get(site, {})
                s = dict(info.get("desc") or {"op": info.get("kind")})
                s["nocheck"] = bool(tr1.user_ie or tr2.user_ie or any(tr1.w.rec.cons_flags))
                viol.append({"property": "C06", "oracle": "structure_differs", "site": s,
                             "detail": "site %d: %s" % (site, why)})
            else:
                for nm in tr1.finals:
                    if nm in tr2.finals and tr1.finals[nm][1] != tr2.finals[nm][1]:
                        s = dict(tr1.gen.origin.get(nm, {}))
                        viol.append({"property": "C06", "oracle": "result_wire_differs", "site": s,
                                     "detail": "%s has different wire expressions in the two runs" % nm})
                        break
            r1, r2 = tr1.w.rec, tr2.w.rec
            if r1.cons and (r1.pub, r1.priv) != (r2.pub, r2.priv):
                nt = P.plan_digest(plan)
        res = self.result(tr1, case, viol)
        res["nontrivial"] = nt
        res["discarded"] = discarded
        res["digest"] = E.sha((tr1.digest_material(), tr2.digest_material()))
        res["events"] += tr2.steps + tr2.w.rec.seam_calls
        res["outcome"] = (tr1.outcome, tr2.outcome)
        if tr1.probes.get("step_in_dead_region") != tr2.probes.get("step_in_dead_region"):
            res["probes"]["twins_took_different_guard_outcomes"] = 1
        return res


E.register(C01())
E.register(C04())
E.register(C06())


# ---------------------------------------------------------------------------------------
# proversim checks
import random as _random

from . import proversim as PV

REAL_PROVER = ("real: pysnark/runtime.py, boolean.py, fixedpoint.py, branching.py, array.py, pack.py and the "
               "snarkjs / zkinterface backend modules (fresh import per honest or shadow run); the verifier is "
               "the checker's own evaluation of every recorded constraint modulo the hard-coded prime; stub: "
               "`flatbuffers` (import only, for the zkinterface backends)")

VALUE_OPS = {"let": 10, "assert": 0, "guarded": 0, "ite_call": 0, "set_ie": 0, "val": 0, "array": 1.5,
             "aset": 0.5, "aget": 2.5, "fxp": 1.0, "arith": 2, "div": 6, "bits": 5, "cmp": 6, "shift": 1.5,
             "pow": 1, "unary": 3, "boolop": 3, "check": 4, "ite": 3, "tobits": 2, "tobool": 1}


def honest(plan, inputs=None):
    """Honest run with checks on; None unless it completed with no exception at all."""
    tr = PV.run_plan(plan, inputs)
    if tr.outcome != "completed" or tr.caught or tr.type_leak:
        return None
    return tr


class ProverCheck(TraceCheck):
    components = REAL_PROVER
    toggles = ()
    shadow_budget = 24
    wire_budget = 1500

    def cfg(self, rng):
        return {"backend": rng.choice(W.DICT_BACKENDS), "bitlength": rng.choice([2, 3, 3, 4, 4, 5]),
                "resolution": rng.choice([0, 1, 2]), "value_bias": "tiny", "max_nesting": 0,
                "p_try": 0.0, "p_bool_cond": 1.0, "fxp": rng.random() < 0.25}

    def attack_trace(self, case, tr, rng, viol, probes, faults):
        """Wire-mode search + shadow-mode re-runs on one honest trace; appends to viol."""
        plan = case["plan"]
        trace = PV.Trace(tr)
        base = trace.base_assignment()
        if trace.unsat(base):
            probes["honest_trace_unsat_discarded"] = probes.get("honest_trace_unsat_discarded", 0) + 1
            return trace
        atk = PV.Attack(trace, PV.plan_consts(plan))
        b = plan["cfg"]["bitlength"]
        deep = 3 if case.get("deep") else 1       # thorough tier: three times the lie budget per plan
        for lies, v, a, rep in atk.search(rng, b, self.wire_budget * deep):
            r = v[1]
            s = dict(r["desc"])
            s["mode"] = "wire"
            s["scale"] = atk.scale(v[2], b)
            s["lie_scale"] = atk.lie_scale(a, b)
            if any(x["site"] == s for x in viol):
                continue
            viol.append({"property": self.prop, "oracle": "second_assignment" if v[0] == "differs" else
                         "nonboolean_result", "site": s,
                         "detail": "lies %s (re-derived=%s) satisfy all %d constraints; %s = %d instead of %d" % (
                             {k: x for k, x in lies.items()}, rep, len(trace.cons), r["name"], v[2], r["value"])})
        faults["lie-wire"] = faults.get("lie-wire", 0) + atk.evals
        probes["rederivation_steps"] = probes.get("rederivation_steps", 0) + atk.repairs
        # shadow mode
        if not viol and trace.hints:
            npriv_in = sum(1 for o in trace.operands if o < 0)
            nsh = 0
            hint_order = list(range(len(trace.hints)))
            rng.shuffle(hint_order)
            for hi in hint_order:
                if nsh >= self.shadow_budget * deep or viol:
                    break
                k = trace.hints[hi]
                hv = trace.priv[-k - 1]
                for cand in (hv + 1, hv - 1, 1 - hv, 0, -hv):
                    if cand == hv:
                        continue
                    if nsh >= self.shadow_budget * deep:
                        break
                    nsh += 1
                    # hint index among PrivVal calls after the inputs = position in trace.priv minus priv inputs
                    d = PV.run_plan(plan, nocheck=True, hook=PV.shadow_hook(-k - 1 - npriv_in, cand, npriv_in))
                    if d.outcome != "completed" or d.caught:
                        probes["shadow_run_crashed"] = probes.get("shadow_run_crashed", 0) + 1
                        continue
                    dt = PV.Trace(d)
                    if dt.kinds != trace.kinds or dt.cons != trace.cons:
                        probes["shadow_run_other_circuit"] = probes.get("shadow_run_other_circuit", 0) + 1
                        continue
                    da = dt.base_assignment()
                    if any(da[o] != base[o] for o in trace.operands):
                        continue
                    faults["lie-shadow"] = faults.get("lie-shadow", 0) + 1
                    if dt.unsat(da):
                        continue
                    for r in trace.results:
                        val = dt.ev(r["lc"], da)
                        if val != r["value"] or (r["t"] == "B" and val not in (0, 1)):
                            s = dict(r["desc"])
                            s["mode"] = "shadow"
                            s["scale"] = atk.scale(val, b)
                            s["lie_scale"] = "shadow"
                            viol.append({"property": self.prop, "oracle": "second_assignment", "site": s,
                                         "detail": "shadow lie hint#%d := %d: all constraints satisfied, %s = %d "
                                                   "instead of %d" % (-k - 1 - npriv_in, cand, r["name"], val,
                                                                      r["value"])})
                            break
                    if viol:
                        break
        return trace


class C02(ProverCheck):
    name = "C02"
    prop = "C02"
    budget = {"quick": 800, "thorough": 16000}
    weights = VALUE_OPS
    rule = ("plans of 1-3 value-returning operations (every operator, the three operand-kind combinations, "
            "selection, bit round trips, boolean and fixed-point operators) at bitlength 2-5 on tiny/boundary "
            "operands; one honest run, then dishonest executions: every hint wire x ~40 candidate values "
            "(small deltas, powers of two, 0/1/-1, 1-v, -v, field quotients x*y^-1 of operand and constant "
            "values) with and without forward re-derivation of dependent hints, adjacent pairs, and shadow "
            "lies re-executed through the library; violation = all constraints satisfied with the operands "
            "unchanged and a result different (or a boolean result not 0/1). non-trivial = distinct plans "
            "with an honest satisfied trace and at least one hint wire attacked")

    def gen(self, rng, i, tier):
        cfg = self.cfg(rng)
        if i % 8 == 7:
            # the same operand object is taken apart into bits inside a region (taken or not) and again
            # outside it: whatever the first decomposition left behind must not weaken the second
            cfg["max_nesting"] = 1
            X = {"ref": 0, "t": "I"}

            def bitop():
                u = rng.random()
                if u < 0.3:
                    return {"op": ">>", "a": X, "b": {"k": rng.randrange(0, 2), "t": "I"}, "t": "I"}
                if u < 0.55:
                    return {"op": rng.choice(["&", "|", "^"]), "a": X, "b": {"ref": 1, "t": "I"}, "t": "I"}
                if u < 0.8:
                    return {"call": "bits_roundtrip", "args": [X], "n": None, "t": "I"}
                return {"call": "check_positive", "args": [X], "t": "B"}
            bl = cfg["bitlength"]
            inputs = [{"kind": "priv", "t": "I", "v": rng.choice([0, 1, 2, (1 << bl) - 1, 1 << bl, -1, 3])},
                      {"kind": "priv", "t": "I", "v": rng.randrange(0, 1 << bl)},
                      {"kind": "priv", "t": "B", "v": rng.choice([0, 0, 1])}]
            inner = [{"s": "let", "e": bitop(), "try": True}]
            if rng.random() < 0.5:
                region = {"s": "guarded", "cond": {"ref": 0, "t": "B"}, "body": inner}
            else:
                region = {"s": "ite_call", "cond": {"ref": 0, "t": "B"}, "true": inner, "false": [],
                          "tret": X, "fret": X}
            body = [region] + [{"s": "let", "e": bitop()} for _ in range(rng.choice([1, 2]))]
            return {"plan": {"cfg": cfg, "inputs": inputs, "body": body}, "seed": rng.randrange(1 << 30),
                    "deep": tier == "thorough"}
        if i % 8 == 1:
            # selection between a boolean and a raw (undeclared) secret integer, either way round, and flags compared
            # / combined with such an integer on either side (operator and orientation swept by the run index)
            cfg["max_nesting"] = 0
            j = i // 8
            inputs = [{"kind": "priv", "t": "I", "v": rng.choice([2, 5, -1, 3, 7, 2, 0, 1])},
                      {"kind": "priv", "t": "B", "v": rng.choice([1, 1, 1, 0])}, {"kind": "priv", "t": "B", "v": rng.randrange(2)}]
            if j % 3 == 0:
                args = [{"ref": 1, "t": "B"}, {"ref": 0, "t": "B"}, {"ref": 0, "t": "I"}]
                if rng.random() < 0.5:
                    args[1], args[2] = args[2], args[1]
                body = [{"s": "let", "e": {"call": "ite", "args": args, "t": "I"}}]
            else:
                ops = ["<", "<=", ">", ">=", "==", "!=", "&", "|", "^"]
                a, b = {"ref": 0, "t": "B"}, {"ref": 0, "t": "I"}
                if j % 3 == 2:
                    a, b = b, a
                body = [{"s": "let", "e": {"op": ops[(j // 3) % len(ops)], "a": a, "b": b, "t": "B"}}]
            return {"plan": {"cfg": cfg, "inputs": inputs, "body": body}, "seed": rng.randrange(1 << 30),
                    "deep": tier == "thorough"}
        if i % 8 == 5:
            # a tiny program over the oblivious block API: the merged variables are results like any other, and no
            # lie on a hint wire (selection bits, loop conditions, guards) may move them
            bcfg = {"backend": cfg["backend"], "bitlength": rng.choice([4, 5, 6]), "resolution": 2, "max_nesting": 1,
                    "p_try": 0.0, "fxp": False, "block_small": True}
            plan = BlockGen(rng, bcfg).plan()
            for inp in plan["inputs"]:
                inp["v"] = rng.choice([0, 1, 2, 3])
            return {"plan": plan, "seed": rng.randrange(1 << 30), "deep": tier == "thorough"}
        if i % 4 == 3:
            # a region (taken or not) that works on the operands, then operations on the same operands outside:
            # whatever the region left behind must not weaken what follows
            cfg["max_nesting"] = 1
            cfg["p_bool_cond"] = 1.0
            w = dict(self.weights, guarded=6, ite_call=6)
            plan = P.generate(rng, cfg, w, n_stmts=rng.choice([2, 3, 4]))
        else:
            plan = P.generate(rng, cfg, self.weights, n_stmts=rng.choice([1, 1, 2, 3]))
        return {"plan": plan, "seed": rng.randrange(1 << 30), "deep": tier == "thorough"}

    def run(self, case):
        plan = case["plan"]
        rng = _random.Random(case["seed"])
        tr = honest(plan)
        probes, faults, viol = {}, {}, []
        if tr is None:
            # the checked run raised. The prover who removed the checks still runs it: whatever the library hands
            # back typed boolean must then be 0/1 or some constraint must be violated
            d = PV.run_plan(plan, nocheck=True)
            if d.outcome == "completed" and not d.caught and not d.type_leak:
                t = PV.Trace(d)
                if not t.unsat(t.base_assignment()):
                    for r_ in t.results:
                        if r_["t"] == "B" and r_["value"] not in (0, 1):
                            viol.append({"property": self.prop, "oracle": "nonboolean_result",
                                         "site": dict(r_["desc"], mode="nocheck"),
                                         "detail": "checks off: %s is a LinCombBool with value %d and all %d constraints "
                                                   "hold" % (r_["name"], r_["value"], len(t.cons))})
                            break
                probes["nocheck_run_of_rejected_plan"] = 1
            return {"violations": viol, "digest": E.sha(("discard", [v["detail"] for v in viol])), "nontrivial": None,
                    "events": d.steps, "faults": {"nocheck": 1}, "probes": dict(probes, honest_run_raised_discarded=1),
                    "sigs": [], "discarded": not viol}
        trace = self.attack_trace(case, tr, rng, viol, probes, faults)
        for r_ in trace.results:
            # (honest run) an object the library typed boolean must hold 0 or 1
            if r_["t"] == "B" and r_["value"] not in (0, 1):
                s_ = dict(r_["desc"], mode="honest")
                if not any(x["site"] == s_ for x in viol):
                    viol.append({"property": self.prop, "oracle": "nonboolean_result", "site": s_,
                                 "detail": "%s is a LinCombBool with value %d in the honest run" % (r_["name"], r_["value"])})
        nt = P.plan_digest(plan) if trace.hints and not probes.get("honest_trace_unsat_discarded") else None
        return {"violations": viol, "digest": E.sha((tr.digest_material(), [v["detail"] for v in viol],
                                                     faults, probes)),
                "nontrivial": nt, "events": tr.steps + faults.get("lie-wire", 0) + faults.get("lie-shadow", 0),
                "faults": faults, "probes": probes,
                "sigs": [E.sha((r["desc"].get("op"), r["desc"].get("kinds"), plan["cfg"]["bitlength"]))
                         for r in trace.results], "outcome": tr.outcome}


E.register(C02())


# ---------------------------------------------------------------------------------------
def _boundary(rng, center, bl, extra=()):
    vals = {center - 1, center, center + 1, center + (1 << (bl - 1)), center - (1 << (bl - 1)),
            center + (1 << bl) - 1, center + (1 << bl), center - (1 << bl), center + (1 << (bl - 1)) - 1,
            center - (1 << (bl - 1)) - 1, center + (1 << bl) + 1}
    vals.update(extra)
    vals = sorted(vals)
    rng.shuffle(vals)
    return vals


class C03(ProverCheck):
    name = "C03"
    prop = "C03"
    budget = {"quick": 840, "thorough": 25000}
    kinds = ["lt", "le", "eq", "ne", "gt", "ge", "zero", "nonzero", "positive", "positive_n", "range",
             "range_secret", "tobool", "bits_n", "bool_cmp", "fxp_cmp", "fxp_range", "gt", "lt", "positive_n",
             "range", "bool_vs_int", "boolop_int", "fxp_const_other_resolution", "int_const_other_bitlength",
             "int_vs_fxp", "dead_first", "unpack_raw", "block_cond"]
    rule = ("one assertion or type declaration per plan (assert_lt/le/eq/ne/gt/ge on integer, boolean and "
            "fixed-point operands with secret and constant right-hand sides, integer receiver with fixed-point "
            "operand and vice versa, assert_zero/nonzero, "
            "assert_positive with and without an explicit width, assert_range with constant and secret "
            "bounds, LinCombBool(x), to_bits(n)), executed on up to 12 operand vectors placed on both sides "
            "of the relation (x-1, x, x+1, +-2^(b-1), 2^b-1, 2^b, ...). Per vector: run with checks on "
            "(accepted / rejected by the run-time check); rejected => run again as a prover who removed the "
            "checks (ignore_errors) and, when the honest hints do not already satisfy the circuit, lie on "
            "every hint wire with forward re-derivation; accepted => trace must be satisfied. "
            "non-trivial = distinct (plan, vector) pairs that reached a verdict")

    def gen(self, rng, i, tier):
        kind = self.kinds[i % len(self.kinds)]
        if kind != "dead_first":
            return self.gen_kind(rng, i, tier, kind)
        # history: the very same assertion / declaration on the very same operand objects was executed before, inside
        # a region guarded by a secret condition (taken or not, errors swallowed by the script); what that first
        # execution left behind must not weaken the second one
        base = rng.choice(["tobool", "tobool", "positive", "bits_n", "lt", "ge", "eq", "zero", "nonzero", "range",
                           "bool_vs_int", "boolop_int"])
        case = self.gen_kind(rng, i, tier, base)
        plan = case["plan"]
        if len(plan["body"]) != 1:
            return case
        stmt = plan["body"][0]
        first = dict(copy.deepcopy(stmt), **{"try": True})
        plan["inputs"].append({"kind": "priv", "t": "B", "v": 0})
        n_b = sum(1 for x in plan["inputs"] if x["t"] == "B")
        plan["cfg"]["max_nesting"] = 1
        plan["body"] = [{"s": "guarded", "cond": {"ref": n_b - 1, "t": "B"}, "body": [first]}, stmt]
        n_old = len(plan["inputs"]) - 1
        case["vectors"] = [(list(v) + [x["v"] for x in plan["inputs"][len(v):n_old]])[:n_old] + [c]
                           for v in case["vectors"][:6] for c in (0, 1)]
        return case

    def gen_kind(self, rng, i, tier, kind):
        cfg = self.cfg(rng)
        cfg["fxp"] = True
        bl = cfg["bitlength"]
        A = {"ref": 0, "t": "I"}
        Bv = {"ref": 1, "t": "I"}
        inputs = [{"kind": "priv", "t": "I", "v": 0}]
        vectors = []
        secret_rhs = rng.random() < 0.5
        if kind in ASSERT_CMP_KINDS:
            b = rng.choice([0, 1, 2, 3, -1, (1 << (bl - 1)) - 1, -(1 << (bl - 1))])
            if secret_rhs:
                inputs.append({"kind": rng.choice(["priv", "pub"]), "t": "I", "v": b})
                stmt = {"s": "assert", "kind": kind, "args": [A, Bv]}
                vectors = [[a, b] for a in _boundary(rng, b, bl)]
            else:
                stmt = {"s": "assert", "kind": kind, "args": [A, {"k": b, "t": "I"}]}
                vectors = [[a] for a in _boundary(rng, b, bl)]
        elif kind in ("zero", "nonzero"):
            stmt = {"s": "assert", "kind": kind, "args": [A]}
            vectors = [[a] for a in (0, 1, -1, 2, (1 << bl), -(1 << bl))]
        elif kind in ("positive", "positive_n", "bits_n"):
            n = None if kind == "positive" else rng.randrange(0, bl + 3)
            if kind == "bits_n":
                stmt = {"s": "let", "e": {"call": "bits_roundtrip", "args": [A], "n": n, "t": "I"}}
            else:
                stmt = {"s": "assert", "kind": "positive", "args": [A], "bits": n}
            w = n if n is not None else bl
            vectors = [[a] for a in sorted({-1, 0, 1, 2, (1 << w) - 1, 1 << w, (1 << w) + 1, (1 << bl) - 1, 1 << bl,
                                            (1 << bl) + 1, (1 << (w - 1)) if w > 0 else 0, -(1 << w)})]
        elif kind in ("range", "range_secret"):
            lo = rng.choice([0, 1, -2, 2])
            hi = lo + rng.choice([0, 1, 2, 5, (1 << bl) - 1])
            ext = [lo - 1, lo, lo + 1, hi - 1, hi, hi + 1]
            if kind == "range_secret":
                inputs += [{"kind": "priv", "t": "I", "v": lo}, {"kind": "priv", "t": "I", "v": hi}]
                stmt = {"s": "assert", "kind": "range", "args": [A, {"ref": 1, "t": "I"}, {"ref": 2, "t": "I"}]}
                vectors = [[a, lo, hi] for a in ext] + [[lo, lo, lo - 1], [lo, lo + 1, lo]]
            else:
                stmt = {"s": "assert", "kind": "range", "args": [A, {"k": lo, "t": "I"}, {"k": hi, "t": "I"}]}
                vectors = [[a] for a in ext]
        elif kind == "tobool":
            stmt = {"s": "let", "e": {"call": "tobool", "args": [A], "t": "B"}}
            vectors = [[0], [1], [2], [-1]]
        elif kind == "bool_cmp":
            inputs = [{"kind": "priv", "t": "B", "v": 0}, {"kind": "priv", "t": "B", "v": 0}]
            # relation and kind of right-hand side (flag / constant 0 / constant 1) are swept by the run index
            j = i // len(self.kinds)
            stmt = {"s": "assert", "kind": list(ASSERT_CMP_KINDS)[j % 6],
                    "args": [{"ref": 0, "t": "B"}, {"ref": 1, "t": "B"}]}
            if (j // 6) % 3:
                stmt["args"][1] = {"k": (j // 6) % 3 - 1, "t": "I"}       # a flag against the plain constant 0 / 1
            vectors = [[0, 0], [0, 1], [1, 0], [1, 1]]
        elif kind in ("bool_vs_int", "boolop_int"):
            # a raw secret integer used where a boolean is expected: declared boolean on the fly
            inputs = [{"kind": "priv", "t": "B", "v": 0}, {"kind": "priv", "t": "I", "v": 0}]
            Bref, Iref = {"ref": 0, "t": "B"}, {"ref": 0, "t": "I"}
            if kind == "bool_vs_int":
                stmt = {"s": "assert", "kind": rng.choice(list(ASSERT_CMP_KINDS)), "args": [Bref, Iref]}
            else:
                stmt = {"s": "let", "e": {"op": rng.choice(["&", "|", "^", "==", "!="]), "a": Bref, "b": Iref, "t": "B"}}
            vectors = [[b, x] for b in (0, 1) for x in (0, 1, 2, -1, 7)]
        elif kind in ("fxp_const_other_resolution", "int_const_other_bitlength"):
            # history: the same constant was used earlier in the run under another resolution / bitlength
            c = rng.choice([1, 2, 3, 5])
            ak = rng.choice(list(ASSERT_CMP_KINDS))
            if kind == "fxp_const_other_resolution":
                r1, r2 = rng.sample([0, 2, 4, 8], 2)
                conv = {"call": "tofxp", "args": [A], "t": "F"}
                pre = [{"s": "set_res", "value": r1},
                       {"s": "assert", "kind": rng.choice(list(ASSERT_CMP_KINDS)), "args": [conv, {"k": c, "t": "I"}], "try": True},
                       {"s": "set_res", "value": r2}]
                stmt = {"s": "assert", "kind": ak, "args": [conv, {"k": c, "t": "I"}]}
            else:
                b1, b2 = rng.sample([3, 4, 6, 8], 2)
                pre = [{"s": "set_bl", "value": b1},
                       {"s": "assert", "kind": rng.choice(list(ASSERT_CMP_KINDS)), "args": [A, {"k": c, "t": "I"}], "try": True},
                       {"s": "set_bl", "value": b2}]
                stmt = {"s": "assert", "kind": ak, "args": [A, {"k": c, "t": "I"}]}
                cfg["bitlength"] = b2
                bl = b2
            vectors = [[a] for a in _boundary(rng, c, min(bl, 4))]
            plan = {"cfg": cfg, "inputs": inputs, "body": pre + [stmt]}
            return {"plan": plan, "vectors": vectors[:12], "seed": rng.randrange(1 << 30)}
        elif kind == "block_cond":
            # a raw (undeclared) secret integer used as the condition of a block of the block API, which declares it
            # boolean: _if / _elif / _while / _breakif
            form = ["if", "if_else", "elif", "while", "breakif"][(i // len(self.kinds)) % 5]
            cfg["bitlength"] = max(cfg["bitlength"], 4)
            inputs = [{"kind": "priv", "t": "I", "v": 0}, {"kind": "priv", "t": "I", "v": 3}]
            c, other = {"ref": 0, "t": "I"}, {"op": "==", "a": {"ref": 1, "t": "I"}, "b": {"k": 99, "t": "I"}}
            asg = [{"s": "track", "name": "x0", "e": {"k": 2}}]
            if form == "if":
                blk = {"s": "block_if", "cond": c, "then": asg, "elifs": [], "else": None}
            elif form == "if_else":
                blk = {"s": "block_if", "cond": c, "then": asg, "elifs": [], "else": [{"s": "track", "name": "x0", "e": {"k": 3}}]}
            elif form == "elif":
                blk = {"s": "block_if", "cond": other, "then": asg, "elifs": [[c, [{"s": "track", "name": "x0", "e": {"k": 5}}]]],
                       "else": None}
            elif form == "while":
                blk = {"s": "block_while", "cond": c, "max": 1, "body": asg}
            else:
                blk = {"s": "block_while", "cond": {"op": "!=", "a": {"ref": 1, "t": "I"}, "b": {"k": 99, "t": "I"}}, "max": 1,
                       "body": asg, "breakif": c, "break_pos": 0}
            plan = {"cfg": cfg, "inputs": inputs, "blocks": True,
                    "body": [{"s": "tracked_init", "name": "x0", "e": {"k": 1}}, blk]}
            return {"plan": plan, "vectors": [[0, 3], [1, 3], [2, 3], [-1, 3], [5, 3]], "seed": rng.randrange(1 << 30)}
        elif kind == "unpack_raw":
            # raw secret bits declared to be a bounded integer (PackIntMod.unpack): v < modulus, nothing else
            m = rng.choice([3, 5, 6, 7, 9, 10, 12, 17, 4, 8])
            w = (m - 1).bit_length()
            cfg["bitlength"] = max(cfg["bitlength"], 8)
            inputs = [{"kind": "priv", "t": "I", "v": 0} for _ in range(w)]
            stmt = {"s": "unpack_raw", "schema": ["int", m], "nbits": w}
            vals = sorted({0, 1, m - 1, m, m + 1, (1 << w) - 1} & set(range(1 << w)))
            vectors = [[(v >> j) & 1 for j in range(w)] for v in vals]
        elif kind == "int_vs_fxp":
            # operands of two different secret types in one assertion (either refused, or judged on the numbers
            # the operands stand for)
            res = cfg["resolution"]
            y = rng.choice([1.5, 5.0, 0.5, 2.0, 3.0]) if res >= 1 else rng.choice([1.0, 5.0, 2.0])
            inputs = [{"kind": "priv", "t": "I", "v": 0}, {"kind": "priv", "t": "F", "v": y}]
            Iref, Fref = {"ref": 0, "t": "I"}, {"ref": 0, "t": "F"}
            u = rng.random()
            if u < 0.4:
                stmt = {"s": "assert", "kind": rng.choice(list(ASSERT_CMP_KINDS)), "args": [Iref, Fref]}
            elif u < 0.7:
                stmt = {"s": "assert", "kind": rng.choice(list(ASSERT_CMP_KINDS)), "args": [Fref, Iref]}
            elif u < 0.85:
                stmt = {"s": "assert", "kind": "range", "args": [Iref, Fref, {"k": int(y * (1 << res)) + 2, "t": "I"}]}
            else:
                stmt = {"s": "assert", "kind": "range", "args": [Iref, {"k": 0, "t": "I"}, Fref]}
            sc = int(y * (1 << res))
            xs = sorted({int(y) - 1, int(y), int(y) + 1, int(y) + 2, sc - 1, sc, sc + 1, 0, -1})
            vectors = [[x, y] for x in xs]
        elif kind in ("fxp_cmp", "fxp_range"):
            res = cfg["resolution"]
            u = 1.0 / (1 << res)
            b = rng.choice([0.0, 1.0, 1.5, -0.5, 2.0])
            b = round(b / u) * u
            inputs = [{"kind": "priv", "t": "F", "v": 0.0}]
            if kind == "fxp_cmp":
                inputs.append({"kind": "priv", "t": "F", "v": b})
                stmt = {"s": "assert", "kind": rng.choice(list(ASSERT_CMP_KINDS)),
                        "args": [{"ref": 0, "t": "F"}, {"ref": 1, "t": "F"}]}
                vectors = [[b + d * u, b] for d in (-2, -1, 0, 1, 2, 1 << bl, -(1 << bl))]
            else:
                hi = b + 2 * u
                stmt = {"s": "assert", "kind": "range", "args": [{"ref": 0, "t": "F"}, {"k": b, "t": "F"},
                                                                  {"k": hi, "t": "F"}]}
                vectors = [[b + d * u] for d in (-1, 0, 1, 2, 3)]
        plan = {"cfg": cfg, "inputs": inputs, "body": [stmt]}
        return {"plan": plan, "vectors": vectors[:12], "seed": rng.randrange(1 << 30)}

    def native_truth(self, plan, vec):
        """Truth of the asserted relation on the plain operand values (independent of the library), or
        None when this statement has no such reading."""
        s = plan["body"][-1]
        bl = plan["cfg"]["bitlength"]
        for st in plan["body"][:-1]:
            if st.get("s") == "set_bl":
                bl = st["value"]
        types = [i["t"] for i in plan["inputs"]]

        def val(e):
            if "k" in e:
                return e["k"]
            if "ref" in e:
                idx = [j for j, t in enumerate(types) if t == e["t"]]
                if not idx:
                    return None
                j = idx[e["ref"] % len(idx)]
                return vec[j] if j < len(vec) else plan["inputs"][j]["v"]
            if e.get("call") == "tofxp":
                return val(e["args"][0])
            return None
        import operator
        ops = {"lt": operator.lt, "le": operator.le, "eq": operator.eq, "ne": operator.ne, "gt": operator.gt,
               "ge": operator.ge}
        if s["s"] == "unpack_raw":
            return sum(b << j for j, b in enumerate(vec[:s["nbits"]])) < s["schema"][1]
        if s["s"] in ("block_if", "block_while"):
            return vec[0] in (0, 1)         # (kind block_cond: the raw integer used as a condition must be a bit)
        if s["s"] == "assert":
            a = [val(x) for x in s["args"]]
            if any(x is None for x in a):
                return None
            k = s["kind"]
            if k in ops:
                return bool(ops[k](a[0], a[1]))
            if k == "zero":
                return a[0] == 0
            if k == "nonzero":
                return a[0] != 0
            if k == "positive":
                n = s.get("bits") if s.get("bits") is not None else bl
                return 0 <= a[0] < (1 << n)
            if k == "range":
                return a[1] <= a[0] < a[2]
        elif s["s"] == "let":
            e = s["e"]
            if e.get("call") == "tobool":
                v = val(e["args"][0])
                return None if v is None else v in (0, 1)
            if e.get("call") == "bits_roundtrip":
                v = val(e["args"][0])
                n = e.get("n") if e.get("n") is not None else bl
                return None if v is None else 0 <= v < (1 << n)
        return None

    def stmt_desc(self, plan):
        s = plan["body"][-1]

        def kd(x):
            return "k" if "k" in x else x["t"]
        if s["s"] == "unpack_raw":
            return {"op": "unpack_raw", "kinds": "I"}
        if s["s"] in ("block_if", "block_while"):
            return {"op": s["s"] + "_condition", "kinds": "I"}
        if s["s"] == "assert":
            d = {"op": "assert_" + s["kind"], "kinds": ",".join(kd(a) for a in s["args"])}
            if s.get("bits") is not None:
                d["width"] = "explicit"
            return d
        e = s["e"]
        if "op" in e:
            return {"op": e["op"], "kinds": kd(e["a"]) + "," + kd(e["b"])}
        d = {"op": e["call"], "kinds": ",".join(kd(a) for a in e["args"])}
        if e.get("n") is not None:
            d["width"] = "explicit"
        return d

    def run(self, case):
        plan = case["plan"]
        rng = _random.Random(case["seed"])
        bl = plan["cfg"]["bitlength"]
        desc = self.stmt_desc(plan)
        viol, probes, faults = [], {}, {}
        verdicts = []
        events = 0
        ntl = []

        def add(oracle, mode, detail):
            s = dict(desc)
            s["mode"] = mode
            if not any(v["oracle"] == oracle and v["site"] == s for v in viol):
                viol.append({"property": "C03", "oracle": oracle, "site": s, "detail": detail})

        for vec in case["vectors"]:
            checked = PV.run_plan(plan, inputs=vec)
            events += checked.steps
            if checked.outcome == "completed" and not checked.caught:
                accepted = True
            elif checked.outcome.split(":")[-1] in ("AssertionError", "ValueError"):
                accepted = False
            else:
                probes["vector_other_exception"] = probes.get("vector_other_exception", 0) + 1
                verdicts.append((vec, checked.outcome))
                continue
            if accepted:
                t = PV.Trace(checked)
                bad = t.unsat(t.base_assignment())
                probes["accepted_vectors"] = probes.get("accepted_vectors", 0) + 1
                truth = self.native_truth(plan, vec)
                if truth is False:
                    add("false_relation_accepted", "honest",
                        "operands %r: the asserted relation is false on the plain values but the call was accepted" % (vec,))
                if bad:
                    add("accepted_but_unsatisfied", "honest",
                        "operands %r accepted by the run-time check, constraints %r not satisfied" % (vec, bad[:3]))
                verdicts.append((vec, "accepted", not bad))
                ntl.append(vec)
                continue
            probes["rejected_vectors"] = probes.get("rejected_vectors", 0) + 1
            d = PV.run_plan(plan, inputs=vec, nocheck=True)
            events += d.steps
            if d.outcome != "completed" or d.caught:
                # the library raises even with checks off (e.g. LinCombBool of a non-boolean): the prover
                # edits the operand wire of an accepted execution instead
                probes["nocheck_run_raised"] = probes.get("nocheck_run_raised", 0) + 1
                verdicts.append((vec, "rejected", "nocheck-raised"))
                continue
            t = PV.Trace(d)
            atk = PV.Attack(t, PV.plan_consts(plan))
            faults["nocheck"] = faults.get("nocheck", 0) + 1
            if not t.unsat(atk.base):
                add("assertion_not_enforced", "honest-hints",
                    "operands %r rejected at run time (%s) but the hints the library computes with checks off "
                    "satisfy all %d constraints" % (vec, checked.outcome_msg[:60], len(t.cons)))
                verdicts.append((vec, "rejected", "sat-honest"))
                ntl.append(vec)
                continue
            found = PV.search_sat(atk, rng, bl)
            faults["lie-wire"] = faults.get("lie-wire", 0) + atk.evals + atk.repairs
            if found is not None:
                add("assertion_not_enforced", "wire",
                    "operands %r rejected at run time but hint lies %r satisfy all %d constraints" % (
                        vec, found[0], len(t.cons)))
            verdicts.append((vec, "rejected", "sat-lie" if found else "unsat"))
            ntl.append(vec)
        return {"violations": viol, "digest": E.sha((verdicts, [v["detail"] for v in viol])),
                "nontrivial": None, "nontrivial_list": [E.sha((plan["body"], plan["cfg"]["bitlength"], v))
                                                        for v in ntl],
                "events": events + faults.get("lie-wire", 0), "faults": faults, "probes": probes,
                "sigs": [E.sha((desc, v[1:])) for v in verdicts], "outcome": verdicts[:4]}


ASSERT_CMP_KINDS = ("lt", "le", "eq", "ne", "gt", "ge")
E.register(C03())


# ---------------------------------------------------------------------------------------
def _schema_bits(sc):
    k = sc[0]
    if k == "bool":
        return 1
    if k == "int":
        return (sc[1] - 1).bit_length()
    if k == "list":
        return sum(_schema_bits(x) for x in sc[1])
    return _schema_bits(sc[1]) * sc[2]


def _ref_unpack(sc, bits, pos, out, oor):
    """Reference decoder for raw bits: appends the leaves to out, (value, modulus) of every bounded integer field
    holding a value >= its modulus to oor; returns the next position."""
    k = sc[0]
    if k == "bool":
        out.append(bits[pos])
        return pos + 1
    if k == "int":
        w = (sc[1] - 1).bit_length()
        v = sum(b << i for i, b in enumerate(bits[pos:pos + w]))
        out.append(v)
        if w and v >= sc[1]:
            oor.append((v, sc[1]))
        return pos + w
    if k == "list":
        for x in sc[1]:
            pos = _ref_unpack(x, bits, pos, out, oor)
        return pos
    for _ in range(sc[2]):
        pos = _ref_unpack(sc[1], bits, pos, out, oor)
    return pos


def _force_top(sc, bits, pos, rng):
    k = sc[0]
    if k == "bool":
        return pos + 1
    if k == "int":
        w = (sc[1] - 1).bit_length()
        if w and sc[1] != (1 << w) and rng.random() < 0.7:
            v = rng.choice([sc[1], sc[1] - 1, (1 << w) - 1])
            for i in range(w):
                bits[pos + i] = (v >> i) & 1
        return pos + w
    if k == "list":
        for x in sc[1]:
            pos = _force_top(x, bits, pos, rng)
        return pos
    for _ in range(sc[2]):
        pos = _force_top(sc[1], bits, pos, rng)
    return pos


NOBACKEND_WIDTH_SRC = r'''
_rt.bitlength = _cfg["bitlength"]
for _v in %(vals)s:
    try:
        _x = PrivVal(_v)
        if "%(op)s" == "to_bits":
            _bits = _x.to_bits(%(n)d)
            _side({"ev": "width", "v": _v, "ok": True, "bits": [b.lc.value if hasattr(b, "lc") else b.value for b in _bits],
                   "back": getattr(LinComb.from_bits(_bits), "value", LinComb.from_bits(_bits))})
        else:
            _x.assert_positive(%(n)d)
            _side({"ev": "width", "v": _v, "ok": True})
    except AssertionError as _e:
        _side({"ev": "width", "v": _v, "ok": False, "err": "AssertionError: " + str(_e)[:80]})
'''


class C16(ProverCheck):
    name = "C16"
    prop = "C16"
    budget = {"quick": 700, "thorough": 20000}
    wire_budget = 600
    shadow_budget = 8
    rule = ("(a) to_bits(n)/from_bits and assert_positive(n) with n in 1..bitlength+2 independent of the "
            "global bitlength on values 0, 1, 2^(n-1), 2^n-1, 2^n, 2^n+1, -1, 2^bitlength+-1: in range => "
            "round trip equal, exactly n bit wires, trace satisfied; out of range => the honest call raises "
            "and a prover without the Python checks (ignore_errors + lies on every hint with re-derivation) "
            "cannot satisfy the circuit. (b) packer schemas of depth <= 3 from PackBool / PackIntMod / "
            "PackList / PackRepeat with plain and secret leaves: pack then unpack returns the original "
            "leaves, the number of bits equals bitlen(), out-of-range plain leaves raise ValueError, the "
            "trace is satisfied and lies on hint wires cannot move an unpacked secret leaf; histories: the packer "
            "object was first given a record it refused half-way (caught), the width calls once more under the "
            "backend without a proof system in a fresh interpreter. non-trivial = "
            "distinct (schema or width, value vector) pairs that reached a verdict")

    def gen_schema(self, rng, depth, budget):
        u = rng.random()
        if depth <= 0 or u < 0.35 or budget[0] <= 2:
            if rng.random() < 0.4:
                budget[0] -= 1
                return ["bool"]
            m = rng.choice([1, 2, 3, 4, 5, 7, 8, 9, 16, 17])
            budget[0] -= (m - 1).bit_length()
            return ["int", m]
        if u < 0.75:
            if rng.random() < 0.06:
                return ["list", []] if rng.random() < 0.5 else ["rep", self.gen_schema(rng, depth - 1, budget), 0]
            items = [self.gen_schema(rng, depth - 1, budget) for _ in range(rng.randrange(1, 4))]
            if rng.random() < 0.3:
                items.insert(rng.randrange(1, len(items) + 1), copy.deepcopy(items[0]))     # the same field twice
            return ["list", items]
        return ["rep", self.gen_schema(rng, depth - 1, budget), rng.randrange(1, 4)]

    def gen_value(self, rng, sc, inputs, expect, oor):
        k = sc[0]
        if k in ("bool", "int"):
            m = 2 if k == "bool" else sc[1]
            v = rng.randrange(0, m)
            if oor and rng.random() < 0.3 and k == "int":
                # (m, m + 1 and 2^width - 1 lie in the gap between the modulus and the next power of two)
                v = rng.choice([m, m, m + 1, (1 << (m - 1).bit_length()) - 1 if m & (m - 1) else m, -1,
                                1 << (m - 1).bit_length()])
                oor.append(v)
            secret = rng.random() < 0.5
            expect.append(v)
            if secret:
                # a secret boolean leaf is, half of the time, of the library's boolean type (LinCombBool)
                t = "B" if (k == "bool" and rng.random() < 0.5) else "I"
                ref = sum(1 for x in inputs if x["t"] == t)
                inputs.append({"kind": "priv", "t": t, "v": v})
                return {"ref": ref, "t": t, "secret": True}
            return {"k": v, "t": "I"}
        if k == "list":
            return [self.gen_value(rng, x, inputs, expect, oor) for x in sc[1]]
        return [self.gen_value(rng, sc[1], inputs, expect, oor) for _ in range(sc[2])]

    def gen(self, rng, i, tier):
        cfg = self.cfg(rng)
        cfg["bitlength"] = rng.choice([2, 3, 4, 6, 8])
        bl = cfg["bitlength"]
        if i % 2 == 0:
            n = rng.randrange(0, bl + 3)
            if rng.random() < 0.1:
                n = rng.choice([63, 64, 65, 127, 128, 129, 200, 250])    # widths far beyond the global bitlength
            kind = rng.choice(["bits", "positive"])
            A = {"ref": 0, "t": "I"}
            if kind == "bits":
                stmt = {"s": "let", "e": {"call": "bits_roundtrip", "args": [A], "n": n, "t": "I"}}
            else:
                stmt = {"s": "assert", "kind": "positive", "args": [A], "bits": n}
            vec = sorted({0, 1, (1 << n) >> 1, (1 << n) - 1, 1 << n, (1 << n) + 1, -1, (1 << bl) - 1, 1 << bl,
                          (1 << bl) + 1, rng.randrange(0, 1 << n), 2, 5})
            if n > 20:
                vec = sorted({0, 1, (1 << n) >> 1, (1 << n) - 1, 1 << n, -1, rng.randrange(0, 1 << n),
                              (1 << (n - 1)) + (1 << (n // 2)) + 1})
            plan = {"cfg": cfg, "inputs": [{"kind": "priv", "t": "I", "v": 0}], "body": [stmt]}
            return {"mode": "width", "n": n, "plan": plan, "vectors": [[v] for v in vec],
                    "seed": rng.randrange(1 << 30)}
        if rng.random() < 0.3:
            # unpack bits that did not come from pack(): raw secret integers holding 0/1 (plan inputs); a bounded
            # integer field holding a value >= its modulus must be refused, and unprovable without the check
            sc = self.gen_schema(rng, rng.choice([0, 1, 2]), [16])
            nb = _schema_bits(sc)
            if nb >= 1:
                bits = [rng.randrange(2) for _ in range(nb)]
                if rng.random() < 0.6:
                    # push every non-power-of-two field to its top value(s)
                    _force_top(sc, bits, 0, rng)
                cfg["bitlength"] = max(cfg["bitlength"], 8)
                plan = {"cfg": cfg, "inputs": [{"kind": "priv", "t": "I", "v": b} for b in bits],
                        "body": [{"s": "unpack_raw", "schema": sc, "nbits": nb}]}
                return {"mode": "unpack_raw", "plan": plan, "seed": rng.randrange(1 << 30)}
        inputs, expect, oor = [], [], []
        want_oor = [] if rng.random() < 0.65 else [None]
        sc = self.gen_schema(rng, rng.choice([0, 1, 2, 3]), [24])
        if want_oor:
            want_oor.clear()
            want_oor.append("on")
        val = self.gen_value(rng, sc, inputs, expect, want_oor if want_oor else None)
        cfg["share_packers"] = rng.random() < 0.5
        plan = {"cfg": cfg, "inputs": inputs, "body": [{"s": "pack", "schema": sc, "value": val}]}
        r2 = _random.Random("refused-first/%s" % P.plan_digest(plan))
        if not want_oor[1:] and sc[0] in ("list", "rep") and r2.random() < 0.45:
            # history: the packer object has been used before, on a record it (usually) refused at a later element
            first_oor = ["on"]
            plan["body"][0]["first"] = self.gen_value(r2, sc, inputs, [], first_oor)
        return {"mode": "pack", "plan": plan, "expect": expect, "oor": bool(want_oor[1:]),
                "seed": rng.randrange(1 << 30)}

    def run(self, case):
        if case["mode"] == "width":
            return self.run_width(case)
        if case["mode"] == "unpack_raw":
            return self.run_unpack_raw(case)
        return self.run_pack(case)

    def run_unpack_raw(self, case):
        plan = case["plan"]
        rng = _random.Random(case["seed"])
        bl = plan["cfg"]["bitlength"]
        sc = plan["body"][0]["schema"]
        bits = [i["v"] for i in plan["inputs"]]
        expect, oor = [], []
        _ref_unpack(sc, bits, 0, expect, oor)
        viol, probes, faults = [], {}, {}

        def add(oracle, mode, detail):
            s = {"op": "unpack_raw", "mode": mode}
            if not any(v["oracle"] == oracle and v["site"] == s for v in viol):
                viol.append({"property": "C16", "oracle": oracle, "site": s, "detail": detail})
        tr = PV.run_plan(plan)
        ok = tr.outcome == "completed" and not tr.caught
        if not oor:
            probes["raw_bits_in_range"] = 1
            if not ok:
                add("in_range_rejected", "honest", "unpack of in-range raw bits %r: %s %s" % (bits, tr.outcome, tr.outcome_msg))
            else:
                out = tr.pack_out.get(1)
                if out != expect:
                    add("roundtrip_differs", "honest", "bits %r decode to %r, unpack returned %r" % (bits, expect, out))
                t = PV.Trace(tr)
                if t.unsat(t.base_assignment()):
                    add("accepted_but_unsatisfied", "honest", "unpack trace not satisfied")
                elif t.hints:
                    atk = PV.Attack(t, PV.plan_consts(plan))
                    for lies, vd, a, rep in atk.search(rng, bl, self.wire_budget):
                        add("second_assignment", "wire", "lies %r move unpacked leaf %s" % (lies, vd[1]["name"]))
                        break
                    faults["lie-wire"] = atk.evals
        else:
            probes["raw_bits_field_ge_modulus"] = 1
            if ok:
                add("out_of_range_accepted", "honest", "bits %r hold %r for a field with modulus %r" % (bits, oor[0][0], oor[0][1]))
            else:
                d = PV.run_plan(plan, nocheck=True)
                if d.outcome != "completed" or d.caught:
                    probes["nocheck_run_raised"] = 1
                else:
                    t = PV.Trace(d)
                    atk = PV.Attack(t, PV.plan_consts(plan))
                    faults["nocheck"] = 1
                    if not t.unsat(atk.base):
                        add("width_not_enforced", "honest-hints", "field value %r >= modulus %r: the hints computed with "
                            "checks off satisfy all %d constraints" % (oor[0][0], oor[0][1], len(t.cons)))
                    else:
                        found = PV.search_sat(atk, rng, bl)
                        faults["lie-wire"] = atk.evals + atk.repairs
                        if found is not None:
                            add("width_not_enforced", "wire", "field value %r >= modulus %r: lies %r satisfy the circuit" % (
                                oor[0][0], oor[0][1], found[0]))
        return {"violations": viol, "digest": E.sha((tr.digest_material(), [x["detail"] for x in viol])),
                "nontrivial": E.sha((sc, bits)), "events": tr.steps + faults.get("lie-wire", 0), "faults": faults,
                "probes": probes, "sigs": [E.sha((sc, bool(oor)))], "outcome": tr.outcome}

    def run_width(self, case):
        plan = case["plan"]
        n = case["n"]
        rng = _random.Random(case["seed"])
        bl = plan["cfg"]["bitlength"]
        st = plan["body"][0]
        op = "to_bits" if st["s"] == "let" else "assert_positive"
        viol, probes, faults, verdicts, ntl = [], {}, {}, [], []
        events = 0

        def add(oracle, mode, detail):
            s = {"op": op, "mode": mode}
            if not any(v["oracle"] == oracle and v["site"] == s for v in viol):
                viol.append({"property": "C16", "oracle": oracle, "site": s, "detail": detail})
        for vec in case["vectors"]:
            v = vec[0]
            in_range = 0 <= v < (1 << n)
            tr = PV.run_plan(plan, inputs=vec)
            events += tr.steps
            ok = tr.outcome == "completed" and not tr.caught
            if in_range:
                if not ok:
                    add("in_range_rejected", "honest", "value %d is a %d-bit value but %s" % (v, n, tr.outcome))
                    continue
                t = PV.Trace(tr)
                if t.unsat(t.base_assignment()):
                    add("accepted_but_unsatisfied", "honest", "value %d width %d" % (v, n))
                nb = sum(1 for k in t.hints if k in t.boolean)
                if nb != n:
                    add("wrong_number_of_bits", "honest", "width %d requested, %d boolean wires allocated" % (n, nb))
                if op == "to_bits":
                    r = [x for x in t.results if x["name"] == "vI1"]
                    if r and r[0]["value"] != v % t.p:
                        add("roundtrip_differs", "honest", "from_bits(to_bits(%d, %d)) = %d" % (v, n, r[0]["value"]))
                    atk = PV.Attack(t, PV.plan_consts(plan))
                    for lies, vd, a, rep in atk.search(rng, bl, 300):
                        add("second_assignment", "wire", "value %d width %d: lies %r move the recomposed value" % (
                            v, n, lies))
                        break
                    faults["lie-wire"] = faults.get("lie-wire", 0) + atk.evals
                verdicts.append((v, "in", ok))
                ntl.append(v)
                continue
            if ok:
                add("out_of_range_accepted", "honest", "value %d is not a %d-bit value but the call returned" % (v, n))
                continue
            d = PV.run_plan(plan, inputs=vec, nocheck=True)
            events += d.steps
            if d.outcome != "completed" or d.caught:
                probes["nocheck_run_raised"] = probes.get("nocheck_run_raised", 0) + 1
                continue
            t = PV.Trace(d)
            atk = PV.Attack(t, PV.plan_consts(plan))
            faults["nocheck"] = faults.get("nocheck", 0) + 1
            if not t.unsat(atk.base):
                add("width_not_enforced", "honest-hints", "value %d, width %d, bitlength %d: the hints computed "
                    "with checks off satisfy all %d constraints" % (v, n, bl, len(t.cons)))
            else:
                found = PV.search_sat(atk, rng, bl)
                faults["lie-wire"] = faults.get("lie-wire", 0) + atk.evals + atk.repairs
                if found is not None:
                    add("width_not_enforced", "wire", "value %d, width %d, bitlength %d: lies %r satisfy the "
                        "circuit" % (v, n, bl, found[0]))
            verdicts.append((v, "out", ok))
            ntl.append(v)
        r3 = _random.Random("nobackend/%s" % case["seed"])
        if r3.random() < 0.15:
            # the same calls in a fresh interpreter under the backend without a proof system (the one the runtime also
            # picks by itself in a notebook; its "modulus" is 10000): accept/reject and the recomposed value are the same
            vals = [vec[0] for vec in case["vectors"]] + [9999, 10000, 10001, 12345]
            src = NOBACKEND_WIDTH_SRC % {"vals": repr(vals), "n": n, "op": op}
            r = X.run_child(src, {"inputs": [], "autoprove": False, "bitlength": bl}, X.child_env("nobackend"))
            faults["config:nobackend"] = 1
            got = [e for e in r["events"] if e.get("ev") == "width"]
            if r["rc"] == "timeout" or len(got) != len(vals):
                raise W.HarnessError("nobackend child did not finish: %r %s" % (r["rc"], r["stderr"][-300:]))
            for e in got:
                v = e["v"]
                if 0 <= v < (1 << n):
                    if not e["ok"]:
                        add("in_range_rejected", "nobackend", "value %d is a %d-bit value but %s" % (v, n, e["err"]))
                    elif op == "to_bits" and (e["back"] != v or e["bits"] != [(v >> i) & 1 for i in range(n)]):
                        add("roundtrip_differs", "nobackend", "to_bits(%d, %d) gives bits %r, recomposed %r" % (
                            v, n, e["bits"], e["back"]))
                elif e["ok"]:
                    add("out_of_range_accepted", "nobackend", "value %d is not a %d-bit value but the call returned" % (v, n))
            events += len(got)
        return {"violations": viol, "digest": E.sha((verdicts, [x["detail"] for x in viol])), "nontrivial": None,
                "nontrivial_list": [E.sha((op, n, bl, v)) for v in ntl], "events": events + faults.get("lie-wire", 0),
                "faults": faults, "probes": probes, "sigs": [E.sha((op, n, bl))], "outcome": verdicts[:3]}

    def run_pack(self, case):
        plan = case["plan"]
        rng = _random.Random(case["seed"])
        bl = plan["cfg"]["bitlength"]
        viol, probes, faults = [], {}, {}

        def add(oracle, mode, detail):
            s = {"op": "pack", "mode": mode}
            if not any(v["oracle"] == oracle and v["site"] == s for v in viol):
                viol.append({"property": "C16", "oracle": oracle, "site": s, "detail": detail})
        tr = PV.run_plan(plan)
        ok = tr.outcome == "completed"
        sc = plan["body"][0]["schema"]
        if plan["body"][0].get("first") is not None:
            faults["refused_first"] = 1

        def leaves(v, out):
            if isinstance(v, list):
                for x in v:
                    leaves(x, out)
            else:
                out.append(v)
            return out
        lv = leaves(plan["body"][0]["value"], [])
        plain_oor = False
        secret_oor = False

        def walk(sc_, v):
            nonlocal plain_oor, secret_oor
            if sc_[0] == "list":
                for a, b in zip(sc_[1], v):
                    walk(a, b)
            elif sc_[0] == "rep":
                for b in v:
                    walk(sc_[1], b)
            elif sc_[0] == "int":
                if "k" in v:
                    if not (0 <= v["k"] < sc_[1]):
                        plain_oor = True
                else:
                    ints = [x for x in plan["inputs"] if x["t"] == "I"]
                    val = ints[v["ref"] % len(ints)]["v"]
                    if not (0 <= val < (1 << (sc_[1] - 1).bit_length())):
                        secret_oor = True
        walk(sc, plan["body"][0]["value"])
        nt = None
        if plain_oor:
            probes["plain_out_of_range"] = 1
            if ok or tr.outcome not in ("raised:ValueError", "raised:AssertionError"):
                add("plain_out_of_range_not_rejected", "honest", "outcome %s" % tr.outcome)
            else:
                # the same script as a program under an optimising interpreter (python -O / -OO): still refused
                flag = rng.choice(["-O", "-OO"])
                r = X.run_child(X.body_source(plan), {"inputs": [i["v"] for i in plan["inputs"]], "autoprove": False},
                                X.child_env(plan["cfg"]["backend"]), pyflags=[flag])
                faults["interpreter:" + flag] = 1
                if r["rc"] == "timeout" or not r["events"] or r["events"][0].get("ev") != "imported":
                    raise W.HarnessError("child interpreter did not run: %r %s" % (r["rc"], r["stderr"][-300:]))
                if any(e.get("ev") == "packed" for e in r["events"]):
                    add("plain_out_of_range_not_rejected", "python " + flag,
                        "under python %s the out-of-range plain value was packed (exit status %r)" % (flag, r["rc"]))
        elif secret_oor:
            probes["secret_out_of_range"] = 1
            if ok:
                add("out_of_range_accepted", "honest", "secret leaf wider than its field was packed")
        elif not ok:
            add("in_range_rejected", "honest", "pack/unpack of in-range leaves: %s %s" % (tr.outcome, tr.outcome_msg))
        else:
            info = tr.pack_info.get(1)
            out = tr.pack_out.get(1)
            if info["nbits"] != _schema_bits(sc) or info["bitlen"] != _schema_bits(sc):
                add("wrong_number_of_bits", "honest", "schema needs %d bits, bitlen()=%d, pack gave %d" % (
                    _schema_bits(sc), info["bitlen"], info["nbits"]))
            if out != case["expect"]:
                add("roundtrip_differs", "honest", "packed %r, unpacked %r" % (case["expect"], out))
            t = PV.Trace(tr)
            if t.unsat(t.base_assignment()):
                add("accepted_but_unsatisfied", "honest", "pack/unpack trace not satisfied")
            elif t.hints:
                atk = PV.Attack(t, PV.plan_consts(plan))
                for lies, vd, a, rep in atk.search(rng, bl, self.wire_budget):
                    add("second_assignment", "wire", "lies %r move unpacked leaf %s" % (lies, vd[1]["name"]))
                    break
                faults["lie-wire"] = atk.evals
            nt = E.sha((sc, case["expect"]))
        return {"violations": viol, "digest": E.sha((tr.digest_material(), [x["detail"] for x in viol])),
                "nontrivial": nt, "events": tr.steps + faults.get("lie-wire", 0), "faults": faults, "probes": probes,
                "sigs": [E.sha(sc)], "outcome": tr.outcome}

    def shrink_candidates(self, case):
        for c in P.shrink_plan_candidates(case):
            yield c
        if case.get("vectors") and len(case["vectors"]) > 1:
            for i in range(len(case["vectors"])):
                c = copy.deepcopy(case)
                c["vectors"] = [case["vectors"][i]]
                yield c


E.register(C16())


# ---------------------------------------------------------------------------------------
# artefact files (C10, C11)
import builtins
import contextlib
import io
import os
import shutil
import tempfile

from . import decoders as D

FILE_MIX = {"let": 10, "assert": 2, "guarded": 1, "ite_call": 0.3, "set_ie": 0, "val": 4, "array": 0.3,
            "aset": 0.3, "aget": 0.3, "arith": 10, "div": 1, "bits": 0.5, "cmp": 1, "shift": 0.3, "pow": 0.5,
            "unary": 2, "boolop": 1, "check": 1, "ite": 1, "tobits": 0.3, "tobool": 0.3, "fxp": 1}


class PipeLike:
    """A binary file object that behaves like the write end of a pipe."""

    def __init__(self, f):
        self._f = f
        self.name = getattr(f, "name", None)
        self.mode = getattr(f, "mode", "wb")

    def write(self, b):
        return self._f.write(b)

    def writelines(self, ls):
        return self._f.writelines(ls)

    def flush(self):
        return self._f.flush()

    def close(self):
        return self._f.close()

    @property
    def closed(self):
        return self._f.closed

    def fileno(self):
        return self._f.fileno()

    def writable(self):
        return True

    def readable(self):
        return False

    def seekable(self):
        return False

    def _illegal(self, *a, **k):
        raise OSError(29, "Illegal seek")

    seek = tell = truncate = _illegal

    def read(self, *a):
        raise io.UnsupportedOperation("not readable")

    def __enter__(self):
        return self

    def __exit__(self, *a):
        self.close()


def prove_in_scratch(tr, stale=None, earlier=None, fifo=None):
    """Call the real backend.prove() of the run's world in a private scratch directory and
    return {filename: bytes}.  `stale` = file names to pre-populate with the (long) artefacts of an
    "earlier, larger proof" in the same directory."""
    d = tempfile.mkdtemp(prefix="prove-")
    old = os.getcwd()
    os.chdir(d)
    out = {}
    try:
        for fn in stale or ():
            with open(os.path.join(d, fn), "wb") as f:
                f.write(b"\xa5" * 200000)
        for fn, data in (earlier or {}).items():        # the artefacts of an earlier run of the same program
            with open(os.path.join(d, fn), "wb") as f:
                f.write(data)
        buf = io.StringIO()
        real_open = builtins.open
        if fifo:
            # the artefact is a pipe-like sink (named pipe, character device): write-only, no seek / tell / read back.
            # (a wrapper around the real file, so that the run stays single-threaded and exactly repeatable)
            def pipe_open(file, mode="r", *a, **k):
                f = real_open(file, mode, *a, **k)
                if os.path.basename(str(file)) == fifo and "w" in mode:
                    return PipeLike(f)
                return f
            builtins.open = pipe_open
        try:
            with contextlib.redirect_stdout(buf), contextlib.redirect_stderr(buf):
                tr.w.backend.prove()
        finally:
            builtins.open = real_open
        for fn in sorted(os.listdir(d)):
            with open(os.path.join(d, fn), "rb") as f:
                out[fn] = f.read()
    finally:
        os.chdir(old)
        shutil.rmtree(d, ignore_errors=True)
    return out


def lc_to_wires(lc, npub, p):
    """Recorder LC (0 one, k>0 public k, k<0 private -k) -> {wire id: coeff mod p}, zeros dropped."""
    out = {}
    for k, c in lc.items():
        c %= p
        if c:
            out[k if k >= 0 else npub - k] = c
    return out


def check_snarkjs_files(files, rec):
    """Yield (oracle, where, detail) problems of circuit.r1cs / witness.wtns against the recorder."""
    p = W.BN254
    npub, npriv = len(rec.pub), len(rec.priv)
    for fn in ("circuit.r1cs", "witness.wtns"):
        if fn not in files:
            yield "file_missing", fn, "prove() did not write %s" % fn
            return
    try:
        r = D.decode_r1cs(files["circuit.r1cs"])
    except D.FormatError as e:
        yield "file_malformed", e.where, e.what
        r = None
    try:
        wt = D.decode_wtns(files["witness.wtns"])
    except D.FormatError as e:
        yield "file_malformed", e.where, e.what
        wt = None
    if r is not None:
        if r["prime"] != p or r["n8"] != 32:
            yield "file_ne_trace", "r1cs:header", "prime/field size"
        if r["nwires"] != 1 + npub + npriv:
            yield "file_ne_trace", "r1cs:header", "nWires %d, trace has 1+%d+%d" % (r["nwires"], npub, npriv)
        if r["npubout"] + r["npubin"] != npub:
            yield "file_ne_trace", "r1cs:header", "%d public wires declared, trace has %d" % (
                r["npubout"] + r["npubin"], npub)
        if len(r["constraints"]) != len(rec.cons):
            yield "file_ne_trace", "r1cs:constraints", "%d constraints in file, %d traced" % (
                len(r["constraints"]), len(rec.cons))
        else:
            for i, (dc, tc) in enumerate(zip(r["constraints"], rec.cons)):
                for part, dl, tl in zip("ABC", dc, tc):
                    if {w: c for w, c in dl if c} != lc_to_wires(tl, npub, p):
                        yield "file_ne_trace", "r1cs:constraints", "constraint %d %s differs from the trace" % (i, part)
                        break
                else:
                    continue
                break
    if wt is not None:
        if wt["prime"] != p:
            yield "file_ne_trace", "wtns:header", "prime"
        exp = [1] + [v % p for v in rec.pub] + [v % p for v in rec.priv]
        if wt["values"] != exp:
            k = next((i for i, (a, b) in enumerate(zip(wt["values"], exp)) if a != b), min(len(exp), len(wt["values"])))
            yield "file_ne_trace", "wtns:values", "witness differs from the trace at wire %d (%d values vs %d)" % (
                k, len(wt["values"]), len(exp))
    if r is not None and wt is not None and len(wt["values"]) == r["nwires"]:
        vals = wt["values"]
        for i, dc in enumerate(r["constraints"]):
            a, b, c = [sum(cf * vals[w] for w, cf in part) % p for part in dc]
            if (a * b - c) % p:
                if not rec.cons_flags[i] and rec.con_ok(i):
                    yield "decoded_unsatisfied", "r1cs+wtns", "decoded witness violates decoded constraint %d" % i
                break


def check_zkif_files(files, rec, p):
    npub, npriv = len(rec.pub), len(rec.priv)
    for fn in ("computation.zkif", "circuit.zkif"):
        if fn not in files:
            yield "file_missing", fn, "prove() did not write %s" % fn
            return
    dec = {}
    for fn in ("computation.zkif", "circuit.zkif"):
        try:
            dec[fn] = D.decode_zkif(files[fn])
        except D.FormatError as e:
            yield "file_malformed", fn + ":" + e.where, e.what
            return
    # the format allows a constraint system / witness to be split over several messages: merge them
    types = {fn: sorted(set(m["type"] for m in dec[fn])) for fn in dec}
    if types["computation.zkif"] != ["constraints", "header", "witness"] or \
            sum(1 for m in dec["computation.zkif"] if m["type"] == "header") != 1:
        yield "file_ne_trace", "computation.zkif:messages", "messages %r" % [m["type"] for m in dec["computation.zkif"]][:8]
        return
    if types["circuit.zkif"] != ["constraints", "header"] or \
            sum(1 for m in dec["circuit.zkif"] if m["type"] == "header") != 1:
        oracle = "witness_in_verifier_file" if "witness" in types["circuit.zkif"] else "file_ne_trace"
        yield oracle, "circuit.zkif:messages", "messages %r" % [m["type"] for m in dec["circuit.zkif"]][:8]
        return
    for fn in dec:
        by = {}
        for m in dec[fn]:
            if m["type"] == "header":
                by["header"] = m
            elif m["type"] == "constraints":
                by.setdefault("constraints", {"constraints": []})["constraints"].extend(m["constraints"])
            elif m["type"] == "witness":
                w = by.setdefault("witness", {"assigned": {"ids": [], "values": []}})
                if m["assigned"]:
                    w["assigned"]["ids"].extend(m["assigned"]["ids"])
                    w["assigned"]["values"].extend(m["assigned"]["values"])
        h = by["header"]
        inst = h["instance"] or {"ids": [], "values": []}
        if inst["ids"] != list(range(1, npub + 1)):
            yield "file_ne_trace", fn + ":header", "instance ids %r, expected 1..%d" % (inst["ids"][:6], npub)
        elif inst["values"] != [v % p for v in rec.pub]:
            yield "file_ne_trace", fn + ":header", "instance values differ from the public values of the trace"
        if h["free_variable_id"] != npub + npriv + 1:
            yield "file_ne_trace", fn + ":header", "free_variable_id %d, expected %d" % (
                h["free_variable_id"], npub + npriv + 1)
        if h["field_maximum"] != p - 1:
            yield "file_ne_trace", fn + ":header", "field_maximum is not p-1"
        cs = by["constraints"]["constraints"]
        if len(cs) != len(rec.cons):
            yield "file_ne_trace", fn + ":constraints", "%d constraints in file, %d traced" % (len(cs), len(rec.cons))
        else:
            bad = None
            for i, (dc, tc) in enumerate(zip(cs, rec.cons)):
                for part, dl, tl in zip("ABC", dc, tc):
                    if any(v >= p for v in dl["values"]):
                        bad = ("file_malformed", "coefficient of constraint %d %s not canonical" % (i, part))
                        break
                    if len(set(dl["ids"])) != len(dl["ids"]):
                        bad = ("file_malformed", "constraint %d %s lists a variable twice" % (i, part))
                        break
                    if {w: c for w, c in zip(dl["ids"], dl["values"]) if c} != lc_to_wires(tl, npub, p):
                        bad = ("file_ne_trace", "constraint %d %s differs from the trace" % (i, part))
                        break
                if bad:
                    break
            if bad:
                yield bad[0], fn + ":constraints", bad[1]
        if "witness" in by:
            a = by["witness"]["assigned"] or {"ids": [], "values": []}
            if a["ids"] != list(range(npub + 1, npub + npriv + 1)):
                yield "file_ne_trace", fn + ":witness", "witness ids %r..., expected %d..%d" % (
                    a["ids"][:4], npub + 1, npub + npriv)
            elif a["values"] != [v % p for v in rec.priv]:
                yield "file_ne_trace", fn + ":witness", "witness values differ from the private values of the trace"
            elif any(v >= p for v in a["values"]):
                yield "file_malformed", fn + ":witness", "value not canonical"
            else:
                vals = {0: 1}
                vals.update(zip(inst["ids"], inst["values"]))
                vals.update(zip(a["ids"], a["values"]))
                for i, dc in enumerate(cs):
                    try:
                        x, y, z = [sum(c * vals[w] for w, c in zip(pt["ids"], pt["values"])) % p for pt in dc]
                    except KeyError:
                        yield "file_malformed", fn + ":constraints", "constraint %d uses an unassigned variable" % i
                        break
                    if (x * y - z) % p:
                        if i < len(rec.cons) and not rec.cons_flags[i] and rec.con_ok(i):
                            yield "decoded_unsatisfied", fn, "decoded assignment violates decoded constraint %d" % i
                        break


class FileCheck(TraceCheck):
    props = ()
    weights = FILE_MIX
    toggles = ("div", "bits", "shift", "pow", "boolop", "check", "ite", "tobits", "tobool", "guarded", "assert")

    def cfg(self, rng):
        c = swarm_cfg(rng, self.backends, fxp_p=0.3, bits=(4, 8, 8, 16))
        c["value_bias"] = rng.choice(["mixed", "field", "field", "tiny"])
        c["p_try"] = 1.0
        return c

    def gen(self, rng, i, tier):
        cfg = self.cfg(rng)
        if i % 8 == 3:
            # sweep over the NUMBER of public values (0..139, one count per run): buffer growth and chunking in the
            # writers depend on it and on nothing else
            n = (i // 8) % 140
            plan = {"cfg": cfg, "inputs": [{"kind": "priv", "t": "I", "v": rng.randrange(2, 9)}],
                    "body": [{"s": "bulk_pub", "n": n},
                             {"s": "let", "e": {"op": "*", "a": {"ref": 0, "t": "I"}, "b": {"ref": 0, "t": "I"}, "t": "I"}}]}
            if rng.random() < 0.5:
                plan["body"].append({"s": "val", "a": {"ref": 1, "t": "I"}})
            if (i // 8) % 11 == 7:
                # ... one of the public values has more than 4300 decimal digits
                plan["inputs"].append({"kind": "pub", "t": "I", "v": 10 ** 5000 + 7})
            if (i // 8) % 5 == 4:
                # ... and no constraint at all: values only (an empty constraint system is a system too)
                cfg["no_default_operands"] = True
                plan["body"] = plan["body"][:1]
                if rng.random() < 0.5:
                    plan["body"].append({"s": "let", "e": {"op": "+", "a": {"ref": 0, "t": "I"}, "b": {"k": 3, "t": "I"}, "t": "I"}})
            return {"plan": plan, "alt_inputs": [rng.randrange(2, 9)], "stale_dir": False}
        w = swarm_weights(rng, self.weights, self.toggles)
        plan = P.generate(rng, cfg, w)
        # interleave public and private allocations: more public inputs than the default
        for inp in plan["inputs"]:
            if rng.random() < 0.4:
                inp["kind"] = "pub"
        if rng.random() < 0.2 and plan["body"]:
            # history: an explicit prove() in the middle of the script, more tracing (incl. new public values)
            # afterwards, then the final proving step
            k = rng.randrange(0, len(plan["body"]) + 1)
            plan["body"].insert(k, {"s": "checkpoint_prove"})
            tail = rng.choice(["val", "val", "priv_only", "pub_only", "nothing", "more_code"])
            if tail == "val":
                plan["body"].append({"s": "val", "a": {"ref": rng.randrange(8), "t": "I"}, "try": True})
            elif tail == "priv_only":
                # only new private values after the first prove(): same public values, no new constraint
                del plan["body"][k + 1:]
                plan["body"].append({"s": "bulk_priv", "n": rng.choice([1, 2, 5])})
            elif tail == "pub_only":
                del plan["body"][k + 1:]
                plan["body"].append({"s": "bulk_pub", "n": rng.choice([1, 2])})
            elif tail == "nothing":
                del plan["body"][k + 1:]
        bulk = None
        u = rng.random()
        if u < 0.004:
            bulk = rng.choice([66000, 70000])       # beyond any 16-bit chunk / counter
        elif u < 0.02:
            bulk = rng.choice([300, 5000])
        if bulk:
            plan["body"].insert(rng.randrange(0, len(plan["body"]) + 1), {"s": "bulk_priv", "n": bulk})
        commuted_factors_tail(plan)
        g = P.Gen(rng, cfg)
        alt = []
        for inp in plan["inputs"]:
            if inp["kind"] == "pub":
                alt.append(inp["v"])
            elif inp["t"] == "I":
                alt.append(g.small_int())
            elif inp["t"] == "B":
                alt.append(1 - inp["v"])
            else:
                alt.append(inp["v"] + 1.0)
        case = {"plan": plan, "alt_inputs": alt, "stale_dir": rng.random() < 0.2}
        r3 = _random.Random("earlier/%s" % P.plan_digest(plan))
        if r3.random() < 0.06 and not bulk:
            # surroundings: one artefact is a named pipe read by a consumer (no seeking, no reading back)
            case["stale_dir"] = False
            case["fifo"] = r3.choice(list(ARTEFACTS[cfg["backend"]]))
        elif r3.random() < 0.15 and not bulk:
            case["stale_dir"] = False
            case["earlier_run"] = [(inp["v"] + r3.choice([1, 2, 5]) if inp["t"] == "I" else
                                    (1 - inp["v"] if inp["t"] == "B" else inp["v"] + 1.0)) for inp in plan["inputs"]]
        if rng.random() < 0.08 and not bulk and not any(s.get("s") == "checkpoint_prove" for s in plan["body"]):
            # the same script once more as a real program: fresh interpreter, real exit hook, and one of the
            # interpreter configurations a deployment may run under
            case["child"] = {"pyflags": rng.choice([[], ["-O"], ["-OO"], ["-O"]]),
                             # ... and with a standard output that can only encode ASCII (cron, LC_ALL=C, CI)
                             "stdout": rng.choice(["utf-8", "ascii", "ascii"])}
        return case

    def files_problems(self, files, rec):
        raise NotImplementedError

    def child_run(self, case, viol, probes):
        from . import exitsim as X
        plan = case["plan"]
        backend = plan["cfg"]["backend"]
        flags = list(case["child"]["pyflags"])
        src = "_rt.bitlength = %d\n_fp = __import__('pysnark.fixedpoint').fixedpoint\n_fp.resolution = %d\n" % (
            plan["cfg"]["bitlength"], plan["cfg"]["resolution"]) + X.body_source(plan) + "\n__term__('end-of-script')\n"
        env = X.child_env(backend)
        if case["child"].get("stdout", "utf-8") != "utf-8":
            env["PYTHONIOENCODING"] = case["child"]["stdout"]
            probes["child_run_ascii_stdout"] = 1
        r = X.run_child(src, {"inputs": [i["v"] for i in plan["inputs"]], "autoprove": True}, env, pyflags=flags)
        if r["rc"] == "timeout":
            raise W.HarnessError("child interpreter timed out")
        ev = r["events"]
        if not ev or ev[0].get("ev") != "imported":
            raise W.HarnessError("child did not import pysnark: rc=%r stderr=%s" % (r["rc"], r["stderr"][-500:]))
        proves = [e for e in ev if e["ev"] == "prove"]
        key = "child_run" + "".join(flags)
        probes[key] = 1
        if r["rc"] != 0 or len(proves) != 1 or proves[0]["trace"] is None:
            probes["child_run_not_judged"] = 1
            return len(ev)
        rec = X.trace_to_rec(proves[0]["trace"], backend)
        for oracle, where, detail in self.files_problems(r["after"], rec):
            s = {"where": where.split(":")[0] + ":" + where.split(":")[-1] if ":" in where else where,
                 "interpreter": "python " + " ".join(flags) if flags else "python"}
            if len(self.backends) > 1:
                s["backend"] = backend
            viol.append({"property": self.prop, "oracle": oracle, "site": s, "detail": "as a program: " + detail})
            break
        return len(ev) + len(r["after"])

    def run(self, case):
        tr = T.TraceRun(case["plan"], props=()).run()
        rec = tr.w.rec
        viol = []
        probes = dict(tr.probes)
        stale = None
        if case.get("stale_dir"):
            stale = ARTEFACTS[case["plan"]["cfg"]["backend"]]
            probes["proved_over_stale_larger_files"] = 1
        earlier = None
        if case.get("earlier_run") and tr.outcome == "completed":
            # directory history: the same program was proven here before, on other (public and private) inputs
            tr0 = T.TraceRun(case["plan"], inputs=case["earlier_run"], props=()).run()
            if tr0.outcome == "completed":
                earlier = prove_in_scratch(tr0)
                probes["proved_after_earlier_run_in_same_directory"] = 1
        try:
            files = prove_in_scratch(tr, stale, earlier, fifo=case.get("fifo"))
        except Exception as e:
            # the proving step itself failed on a trace that completed: nothing (or half of it) was written
            files = {}
            viol.append({"property": self.prop, "oracle": "prove_raised", "site": {"exc": type(e).__name__},
                         "detail": "backend.prove() raised %s: %s" % (type(e).__name__, str(e)[:120])})
        p = rec.p
        for oracle, where, detail in self.files_problems(files, rec):
            s = {"where": where.split(":")[0] + ":" + where.split(":")[-1] if ":" in where else where,
                 "backend": case["plan"]["cfg"]["backend"] if len(self.backends) > 1 else None}
            s = {k: v for k, v in s.items() if v is not None}
            if not any(v["oracle"] == oracle and v["site"] == s for v in viol):
                viol.append({"property": self.prop, "oracle": oracle, "site": s, "detail": detail})
        if any(v % p != v for v in rec.priv + rec.pub):
            probes["value_outside_0_p"] = 1
        if any(v < 0 for v in rec.priv + rec.pub):
            probes["negative_value"] = 1
        if any(abs(v) >> 256 for v in rec.priv + rec.pub):
            probes["value_wider_than_256_bits"] = 1
        if any(not part for c in rec.cons for part in c):
            probes["empty_linear_combination"] = 1
        if any(c % p == 0 for con in rec.cons for part in con for c in part.values()):
            probes["zero_coefficient"] = 1
        kinds = rec.kinds().replace("c", "")
        if "wP" in kinds:
            probes["public_after_private"] = 1
        extra = self.extra(case, tr, files, viol, probes)
        if case.get("child") and tr.outcome == "completed":
            extra += self.child_run(case, viol, probes)
        res = self.result(tr, case, viol)
        res["probes"] = probes
        if case.get("child"):
            res.setdefault("faults", {})["interpreter:" + ("".join(case["child"]["pyflags"]) or "default")] = 1
        res["events"] += len(files) + extra
        res["nontrivial"] = P.plan_digest(case["plan"]) if rec.cons and files else None
        res["digest"] = E.sha((res["digest"], sorted((k, E.sha(v.hex())) for k, v in files.items())))
        return res

    def extra(self, case, tr, files, viol, probes):
        return 0


class C10(FileCheck):
    name = "C10"
    prop = "C10"
    backends = ("snarkjs",)
    budget = {"quick": 1500, "thorough": 60000}
    rule = ("seeded plans with interleaved public/private allocations and outputs, values negative, >= p and "
            "wider than 256 bits, zero coefficients and empty combinations; the real snarkjs prove() writes "
            "circuit.r1cs / witness.wtns into a scratch directory; an independent decoder of the iden3 "
            "formats checks structure (magic, version, section table, sizes, canonical elements, wire ids) "
            "and the decoded content is compared with the recorder's event log under the numbering one, "
            "publics, privates; decoded witness must satisfy decoded constraints; 5 % of the plans run once more "
            "as a program in a fresh interpreter (python, -O, -OO). non-trivial = distinct "
            "plans with at least one constraint whose files were decoded")

    def files_problems(self, files, rec):
        return check_snarkjs_files(files, rec)


class C11(FileCheck):
    name = "C11"
    prop = "C11"
    backends = ("zkinterface", "zkifbellman", "zkifbulletproofs")
    budget = {"quick": 1200, "thorough": 45000}
    components = REAL_TRACE + "; the FlatBuffers bytes come from the stub builder, so what is checked is the " \
        "backend's use of the builder API and the message contents, not the real library's byte layout"
    rule = ("as C10 for the three zkinterface field configurations, with the stub flatbuffers builder and an "
            "independent bounds-checked FlatBuffers reader written from zkinterface.fbs: message sequence and "
            "types per file, header (instance ids 1..n with values, free_variable_id, field_maximum = p-1), "
            "constraints equal to the trace with canonical coefficients, witness ids n+1..n+m with values, "
            "decoded assignment satisfies decoded constraints; circuit.zkif has no witness message and is "
            "byte-identical in a twin run on other private values; 5 % of the plans run once more as a program "
            "in a fresh interpreter (python, -O, -OO) and the files its exit hook wrote are decoded against the "
            "trace dumped at proving time. non-trivial = distinct plans with at "
            "least one constraint whose files were decoded")

    def files_problems(self, files, rec):
        return check_zkif_files(files, rec, rec.p)

    def extra(self, case, tr, files, viol, probes):
        if tr.outcome != "completed" or tr.caught or "circuit.zkif" not in files:
            return 0
        alt = list(case.get("alt_inputs", []))
        alt += [i["v"] for i in case["plan"]["inputs"]][len(alt):]
        tr2 = T.TraceRun(case["plan"], inputs=alt, props=()).run()
        if tr2.outcome != "completed" or tr2.caught or tr2.w.rec.pub != tr.w.rec.pub:
            probes["twin_discarded"] = 1
            return tr2.steps
        if tr2.w.rec.canon_cons() != tr.w.rec.canon_cons():
            probes["twin_discarded_structure_differs"] = 1
            return tr2.steps
        files2 = prove_in_scratch(tr2)
        probes["twin_compared"] = 1
        if tr2.w.rec.priv != tr.w.rec.priv:
            probes["twin_compared_with_different_private_values"] = 1
        if files2.get("circuit.zkif") != files["circuit.zkif"]:
            viol.append({"property": "C11", "oracle": "verifier_file_depends_on_witness",
                         "site": {"where": "circuit.zkif"},
                         "detail": "circuit.zkif differs between two runs with equal public values"})
        return tr2.steps + 2


E.register(C10())
E.register(C11())


# ---------------------------------------------------------------------------------------
# exitsim checks
from . import exitsim as X

REAL_EXIT = ("real: a fresh CPython interpreter per run with its real atexit / sys.exit / sys.excepthook "
             "machinery, pysnark/atexitmaybe.py, pysnark/runtime.py and the selected backend writing real files "
             "into an empty scratch directory; stubs: `flatbuffers` (zkinterface rows), fake qaptools executables "
             "(qaptools rows), fake `libsnark` module where a configuration says so")

EXIT_ARGS = ["", "None", "0", "False", "3", "1", "True", "'msg'", "0.0", "-1",
             # an integer-like object that is not an int (numpy.int64(0), ...): CPython prints it and exits with 1
             "type('Int64', (), {'__index__': lambda s: 0, '__str__': lambda s: '0'})()"]
EXIT_MODES = [("end", None), ("sys_exit", EXIT_ARGS), ("raise_SystemExit", EXIT_ARGS),
              ("builtin_exit", EXIT_ARGS), ("builtin_quit", ["", "0", "2"]), ("uncaught", None),
              ("uncaught_assert", None), ("uncaught_in_guard", None), ("uncaught_in_dead_guard_user", None),
              ("uncaught_in_snark", None), ("uncaught_in_finally", None), ("keyboard_interrupt", None),
              ("caught_exit_then_end", ["0", "3", "'msg'"]), ("caught_error_then_end", None),
              ("os__exit", ["0", "1"]), ("exit_in_guard", ["0", "3"]), ("fork_worker", None),
              ("exit_in_open_block", ["0", "", "3"]), ("end_in_open_loop", ["0", "2"])]

ARTEFACTS = {
    "snarkjs": ("witness.wtns", "circuit.r1cs"),
    "zkinterface": ("computation.zkif", "circuit.zkif"),
    "zkifbellman": ("computation.zkif", "circuit.zkif"),
    "zkifbulletproofs": ("computation.zkif", "circuit.zkif"),
    "qaptools": ("pysnark_schedule", "pysnark_proof"),
}
TRACING_FILES = ("pysnark_eqs", "pysnark_wires", "pysnark_values")


class C18(TraceCheck):
    name = "C18"
    prop = "C18"
    props = ()
    budget = {"quick": 1100, "thorough": 30000}
    components = REAL_EXIT
    run_cap_s = 300
    rule = ("one fresh interpreter per (plan, statement position k, termination mode x argument, backend, "
            "autoprove on/off, stale artefacts yes/no, runtime.operation set or not): fall off the end, sys.exit / raise SystemExit / "
            "exit() / quit() with nothing, None, 0, False, non-zero, True, str, 0.0, uncaught exception from "
            "user code, from a failing pysnark assertion, inside a guarded region, inside a @snark function, "
            "in a finally, KeyboardInterrupt, sys.exit caught by the script, os._exit. expected = f(real "
            "exit status): status 0 + autoprove => prove() ran exactly once over the complete trace and "
            "the artefacts decode to the trace dumped at the termination point; status != 0 => prove() did "
            "not run and the directory (incl. stale artefacts) is byte-identical; autoprove off => nothing "
            "produced and no traceback from the exit hook. non-trivial = distinct (mode, arg, position "
            "class, backend, autoprove, stale) tuples judged")

    def gen(self, rng, i, tier):
        backend = rng.choice(["snarkjs", "snarkjs", "zkinterface", "zkifbellman", "zkifbulletproofs", "qaptools"])
        cfg = {"backend": backend, "bitlength": rng.choice([4, 8]), "resolution": 2, "value_bias": "tiny",
               "max_nesting": 1, "p_try": 1.0, "p_bool_cond": 0.5, "fxp": rng.random() < 0.3}
        plan = P.generate(rng, cfg, dict(FULL_MIX, set_ie=0, array=0, aset=0, aget=0, val=3),
                          n_stmts=rng.randrange(0, 6))
        if rng.random() < 0.12:
            # a successful run whose trace holds values and linear arithmetic only (no multiplication, no
            # assertion, no boolean): still a complete trace that must be proven
            cfg["no_default_operands"] = True
            plan["inputs"] = [{"kind": rng.choice(["priv", "pub"]), "t": "I", "v": rng.randrange(0, 9)}
                              for _ in range(rng.randrange(1, 4))]
            plan["body"] = [{"s": "let", "e": {"op": rng.choice(["+", "-"]), "a": {"ref": rng.randrange(8), "t": "I"},
                                               "b": rng.choice([{"ref": rng.randrange(8), "t": "I"}, {"k": 3, "t": "I"}]),
                                               "t": "I"}} for _ in range(rng.randrange(0, 4))]
        mode, args = EXIT_MODES[i % len(EXIT_MODES)] if rng.random() < 0.7 else rng.choice(EXIT_MODES)
        arg = rng.choice(args) if args else ""
        k = rng.randrange(0, len(plan["body"]) + 1)
        if mode != "end":
            plan["body"].insert(k, {"s": "terminate", "mode": mode, "arg": arg})
        pre = None
        if rng.random() < 0.2:
            # an earlier sys.exit() that the script catches itself (e.g. a --help path), then the run goes on
            pre = rng.choice(["0", "", "3", "'msg'"])
            plan["body"].insert(rng.randrange(0, k + 1), {"s": "caught_exit", "arg": pre})
        case = {"plan": plan, "mode": mode, "arg": arg, "k": k, "autoprove": rng.random() < 0.8,
                "stale": rng.random() < 0.3 and backend != "qaptools", "pre": pre}
        if rng.random() < 0.1:
            # surroundings: the script changes its working directory somewhere before it ends
            plan["body"].insert(rng.randrange(0, k + 1), {"s": "chdir"})
            case["chdir"] = True
            case["stale"] = False
        if rng.random() < 0.25:
            # the application installed its own sys.excepthook before importing the library: well-behaved, ending
            # in SystemExit(3), or failing itself
            case["prehook"] = rng.choice(["plain", "status", "broken"])
        if rng.random() < 0.2:
            # runtime.operation set by the script (the libsnark examples' idiom) on a backend that has no such step
            case["operation"] = rng.choice(["prove", "keygen", "verify", "nonsense"])
            case["namevals"] = rng.choice([{}, {"x": 3}])
        return case

    def run(self, case):
        plan = case["plan"]
        backend = plan["cfg"]["backend"]
        cfg = {"inputs": [i["v"] for i in plan["inputs"]], "autoprove": case["autoprove"]}
        if case.get("operation") is not None:
            cfg["operation"], cfg["namevals"] = case["operation"], case.get("namevals") or {}
        if case.get("prehook"):
            cfg["prehook"] = case["prehook"]
        pre = {}
        if case["stale"]:
            pre = {fn: b"STALE ARTEFACT OF AN EARLIER, LARGER RUN " + fn.encode() + b"\xa5" * 50000
                   for fn in ARTEFACTS[backend]}
        src = "_rt.bitlength = %d\n_fp = __import__('pysnark.fixedpoint').fixedpoint\n_fp.resolution = %d\n" % (
            plan["cfg"]["bitlength"], plan["cfg"]["resolution"]) + X.body_source(plan) + "\n__term__('end-of-script')\n"
        r = X.run_child(src, cfg, X.child_env(backend), pre)
        if r["rc"] == "timeout":
            raise W.HarnessError("child interpreter timed out")
        ev = r["events"]
        if not ev or ev[0].get("ev") != "imported":
            raise W.HarnessError("child did not import pysnark: rc=%r stderr=%s" % (r["rc"], r["stderr"][-500:]))
        if case.get("chdir"):
            # artefacts may be in either directory: judged by file name
            r["before"] = {k.split("/")[-1]: v for k, v in sorted(r["before"].items())}
            r["after"] = {k.split("/")[-1]: v for k, v in sorted(r["after"].items())}
        proves = [e for e in ev if e["ev"] == "prove"]
        terms = [e for e in ev if e["ev"] == "term"]
        mode, arg = case["mode"], case["arg"]
        site = {"mode": mode, "arg": arg, "autoprove": case["autoprove"]}
        if case.get("chdir"):
            site["chdir"] = True
            site["backend"] = backend
        if case.get("pre") is not None:
            site["pre"] = "caught_exit:" + case["pre"]
        if case.get("operation") is not None:
            site["operation"] = case["operation"]
        if case.get("prehook"):
            site["excepthook"] = case["prehook"]
        viol = []

        def add(oracle, detail, **extra):
            s = dict(site)
            s.update(extra)
            viol.append({"property": "C18", "oracle": oracle, "site": s, "detail": detail})
        art = ARTEFACTS[backend]
        changed = sorted(fn for fn in set(r["before"]) | set(r["after"])
                         if r["before"].get(fn) != r["after"].get(fn) and fn not in TRACING_FILES)
        art_changed = [fn for fn in changed if fn in art or fn.startswith("pysnark_")]
        rc = r["rc"]
        # an exception that escaped from an atexit callback (CPython reports it and carries on)
        hook_tb = ("Exception ignored in atexit callback" in r["stderr"] or "Error in atexit._run_exitfuncs" in r["stderr"])
        if mode == "os__exit":
            if proves or art_changed:
                add("artefact_on_failure", "os._exit: prove ran %d times, files changed %r" % (len(proves), changed))
        elif not case["autoprove"]:
            if proves or art_changed:
                add("artefact_without_autoprove", "autoprove off: prove ran %d times, files changed %r" % (
                    len(proves), changed))
            if hook_tb:
                add("exit_hook_failed", "autoprove off: the exit hook printed a traceback: %s" % (
                    r["stderr"].strip().splitlines()[-1][:150]))
        elif rc == 0:
            if len(proves) == 0:
                add("no_artefact_on_success", "exit status 0 but the proving step did not run (stderr: %s)" % (
                    r["stderr"].strip().splitlines()[-1][:120] if r["stderr"].strip() else ""))
            elif len(proves) > 1:
                add("prove_count", "proving step ran %d times" % len(proves))
            else:
                missing = [fn for fn in art if fn not in r["after"]]
                if missing:
                    add("no_artefact_on_success", "proving step ran but %r missing" % missing)
                tr = proves[0]["trace"]
                tt = terms[-1]["trace"] if terms else None
                if tt is not None and tr is not None and not all(
                        tr[k][:len(tt[k])] == tt[k] for k in ("pub", "priv", "cons")):
                    # (the terminator statement itself may allocate after the dump, hence prefix)
                    add("artefact_ne_trace", "trace at proving time does not extend the trace dumped at the "
                        "termination point")
                if tr is not None and not missing and backend in W.DICT_BACKENDS:
                    rec = X.trace_to_rec(tr, backend)
                    probs = (check_snarkjs_files(r["after"], rec) if backend == "snarkjs"
                             else check_zkif_files(r["after"], rec, rec.p))
                    for oracle, where, detail in probs:
                        add("artefact_ne_trace", "%s %s: %s" % (oracle, where, detail), backend=backend)
                        break
                if hook_tb:
                    add("exit_hook_failed", "traceback in the exit hook: %s" % r["stderr"].strip().splitlines()[-1][:150])
        else:
            if proves or art_changed:
                add("artefact_on_failure", "exit status %r but prove ran %d times, files changed %r" % (
                    rc, len(proves), changed))
        posclass = "first" if case["k"] == 0 else ("last" if case["k"] >= len(plan["body"]) - 1 else "middle")
        nt = E.sha((mode, arg, posclass, backend, case["autoprove"], case["stale"], case.get("operation") is not None))
        faults = {"term:" + mode: 1}
        if case.get("operation") is not None:
            faults["operation_set"] = 1
        if case.get("prehook"):
            faults["app_excepthook:" + case["prehook"]] = 1
        if case.get("chdir"):
            faults["chdir"] = 1
        if case["stale"]:
            faults["stale"] = 1
        probes = {"status_%s" % ("0" if rc == 0 else "nonzero"): 1, "prove_ran": len(proves)}
        return {"violations": viol,
                "digest": E.sha((rc, len(proves), X.files_digest(r["after"]) if backend != "qaptools" else
                                 sorted(r["after"]), [v["oracle"] for v in viol])),
                "nontrivial": nt, "events": len(ev) + len(r["after"]) + len(r["tools"]), "faults": faults,
                "probes": probes, "sigs": [nt], "outcome": [rc, len(proves)]}

    def shrink_candidates(self, case):
        for c in P.shrink_plan_candidates(case):
            # keep exactly the terminator
            if (case["mode"] == "end" or any(s.get("s") == "terminate" for s in c["plan"]["body"])) and \
                    (case.get("pre") is None or any(s.get("s") == "caught_exit" for s in c["plan"]["body"])):
                yield c
        if case.get("stale"):
            c = copy.deepcopy(case)
            c["stale"] = False
            yield c


E.register(C18())


# ---------------------------------------------------------------------------------------
NAME_TABLE = {
    "libsnark": ("pysnark.libsnark.backend", W.BN254),
    "libsnarkgg": ("pysnark.libsnark.backendgg", W.BN254),
    "qaptools": ("pysnark.qaptools.backend", W.BN254),
    "snarkjs": ("pysnark.snarkjsbackend", W.BN254),
    "zkinterface": ("pysnark.zkinterface.backend", W.BN254),
    "zkifbellman": ("pysnark.zkinterface.backendbellman", W.BLS12_381),
    "zkifbulletproofs": ("pysnark.zkinterface.backendbulletproofs", W.ED25519),
    "nobackend": ("pysnark.nobackend", 10000),
}
DOC_ORDER = ["libsnark", "libsnarkgg", "qaptools", "snarkjs", "zkinterface", "zkifbellman", "zkifbulletproofs",
             "nobackend"]
NEEDS = {"libsnark": "libsnark", "libsnarkgg": "libsnark", "qaptools": "qaptools", "zkinterface": "flatbuffers",
         "zkifbellman": "flatbuffers", "zkifbulletproofs": "flatbuffers"}


def c19_configs():
    """The whole finite configuration space (deterministic order)."""
    out = []
    envs = DOC_ORDER + ["bogus", "", None, "SnarkJS", "snarkjs ", " zkinterface", "QapTools"]
    pres = [[]] + [[n] for n in DOC_ORDER] + [["zkifbellman", "snarkjs"], ["snarkjs", "zkifbellman"],
                                               ["libsnarkgg", "nobackend"],
                                               # two derived modules of one family (they share the base module's field)
                                               ["zkifbellman", "zkifbulletproofs"], ["zkifbulletproofs", "zkifbellman"]]
    loadables = []
    for ls in (0, 1):
        for fb in (0, 1):
            for qt in (0, 1, "path"):
                # ("path": the tools are installed in the system path and QAPTOOLS_BIN is not set at all)
                loadables.append({"libsnark": bool(ls), "flatbuffers": bool(fb), "qaptools": qt if qt == "path" else bool(qt)})
    for env in envs:
        for pre in pres:
            for lo in loadables:
                for ipy in (False, True):
                    if ipy and pre and (lo["libsnark"] or lo["qaptools"] or not lo["flatbuffers"]):
                        continue   # (keep the space small: notebook x pre-import only with the default loadable set)
                    out.append({"env": env, "pre": pre, "loadable": lo, "ipython": ipy})
    return out


class C19(TraceCheck):
    name = "C19"
    prop = "C19"
    props = ()
    budget = {"quick": 700, "thorough": len(c19_configs())}
    exhaustive_tiers = ("thorough",)
    components = REAL_EXIT
    run_cap_s = 300
    rule = ("configuration = (PYSNARK_BACKEND in 8 names + unknown + unset) x (pre-imported backend modules: "
            "none, each of the 8, five ordered pairs) x (loadable subset of {libsnark stub, flatbuffers "
            "stub, qaptools stub binaries}; unloadable ones fail with ImportError / missing executable) x "
            "ipython on/off; one fresh interpreter per configuration, followed by a three-statement traced "
            "program. oracle from the statement: pre-import wins; else a known name selects exactly that "
            "module or the interpreter dies with a traceback; unknown name => message, then auto-detect in "
            "the documented order (notebook detection only there); reported name <-> (module receiving the constraints, modulus in effect, "
            "Groth flag) per a table in the checker; complete interface. quick samples the space, thorough "
            "sweeps all of it (exhaustive). non-trivial = distinct configurations judged")

    def gen(self, rng, i, tier):
        space = c19_configs()
        if tier == "thorough":
            return dict(space[i % len(space)], index=i % len(space))
        j = rng.randrange(len(space))
        return dict(space[j], index=j)

    def run(self, case):
        lo = case["loadable"]
        pp = [W.REPO]
        if lo["flatbuffers"]:
            pp.append(os.path.join(W.STUBS, "py"))
        if lo["libsnark"]:
            pp.append(os.path.join(W.STUBS, "py_libsnark"))
        env = X.child_env(None, stubs=False)
        env["PYTHONPATH"] = ":".join(pp)
        if not lo["qaptools"]:
            env["QAPTOOLS_BIN"] = "/nonexistent-qaptools-bin"
        elif lo["qaptools"] == "path":
            env["PATH"] = env.pop("QAPTOOLS_BIN") + ":" + env["PATH"]
        if case["env"] is not None:
            env["PYSNARK_BACKEND"] = case["env"]
        importfail = [m for m in ("flatbuffers", "libsnark") if not lo[m]]
        cfg = {"preimport": [NAME_TABLE[n][0] for n in case["pre"]], "ipython": case["ipython"],
               "importfail": importfail, "inputs": []}
        body = ("_x = PrivVal(3); _y = PubVal(4); _z = _x * _y\n(_z - 12).assert_zero()\n"
                "_side({'ev': 'traced', 'trace': _dump(), 'groth': getattr(sys.modules.get('pysnark.libsnark.backend'), "
                "'use_groth', None), 'nconstraints': (len(_b.pb.constraints) if hasattr(_b, 'pb') else None)})\n"
                "_rt.autoprove = False\n")
        r = X.run_child(body, cfg, env)
        if r["rc"] == "timeout":
            raise W.HarnessError("child timed out")
        ev = r["events"]
        imported = [e for e in ev if e["ev"] == "imported"]
        pre_ok = [e["module"] for e in ev if e["ev"] == "preimport" and e["ok"]]
        pre_names = [n for n in case["pre"] if NAME_TABLE[n][0] in pre_ok]
        viol = []
        site0 = {"env": "known" if case["env"] in DOC_ORDER else ("unknown" if case["env"] is not None else "unset"),
                 "pre": "none" if not case["pre"] else ("one" if len(case["pre"]) == 1 else "two")}

        def add(oracle, detail, **extra):
            s = dict(site0)
            s.update(extra)
            viol.append({"property": "C19", "oracle": oracle, "site": s, "detail": detail})

        def loadable(n):
            need = NEEDS.get(n)
            return need is None or lo[need]
        # expected selection
        stage = None
        expected = None
        may_die = False
        if pre_names:
            stage = "preimport"
            expected = set(pre_names)
        elif case["env"] in DOC_ORDER:
            stage = "env"
            if loadable(case["env"]):
                expected = {case["env"]}
            else:
                may_die = True
        else:
            stage = "auto"
            if case["ipython"]:
                expected = {"nobackend"}
            else:
                expected = {next(n for n in DOC_ORDER if loadable(n))}
        got = imported[0] if imported else None
        if may_die:
            if got is not None:
                add("silent_fallback", "PYSNARK_BACKEND=%s cannot be loaded but the runtime came up with %s" % (
                    case["env"], got["backend_name"]), name=case["env"])
            elif "Traceback" not in r["stderr"] and "Error" not in r["stderr"]:
                add("not_loud", "unloadable named backend: interpreter died without a traceback", name=case["env"])
        elif got is None:
            add("import_failed", "runtime import failed: rc=%r %s" % (
                r["rc"], (r["stderr"].strip().splitlines() or [""])[-1][:200]), stage=stage)
        else:
            nm = got["backend_name"]
            if nm not in expected:
                add("wrong_backend", "stage %s: expected %s, runtime selected %s" % (stage, sorted(expected), nm),
                    stage=stage, got=nm, want=sorted(expected)[0])
            if case["env"] is not None and case["env"] not in DOC_ORDER and stage == "auto":
                if "unknown backend" not in r["stdout"] + r["stderr"]:
                    add("unknown_name_not_reported", "PYSNARK_BACKEND=%s: no message before falling back" % case["env"])
            # the name identifies what is in effect
            if nm in NAME_TABLE:
                mod, modulus = NAME_TABLE[nm]
                traced = [e for e in ev if e["ev"] == "traced"]
                if got["module"] != mod:
                    add("name_ne_backend", "name %s but module in effect is %s" % (nm, got["module"]), name=nm,
                        field="module")
                elif got["modulus"] != modulus:
                    add("name_ne_backend", "name %s but modulus in effect is %s" % (nm, got["modulus"]), name=nm,
                        field="modulus")
                elif traced and nm in ("libsnark", "libsnarkgg") and traced[0]["groth"] != (nm == "libsnarkgg"):
                    add("name_ne_backend", "name %s but use_groth=%r" % (nm, traced[0]["groth"]), name=nm,
                        field="groth")
                if traced:
                    t = traced[0]
                    ncons = len(t["trace"]["cons"]) if t["trace"] else t["nconstraints"]
                    if nm != "nobackend" and nm != "qaptools" and ncons != 2:
                        add("constraints_not_received", "module named by %s holds %r constraints after a 2-constraint "
                            "program" % (nm, ncons), name=nm)
                elif r["rc"] != 0:
                    add("traced_program_failed", "rc=%r %s" % (r["rc"], (r["stderr"].strip().splitlines() or [""])[-1][:160]),
                        name=nm)
            else:
                add("name_ne_backend", "unknown reported name %r" % nm, field="name")
            missing = [k for k, ok in got["interface"].items() if not ok]
            if missing:
                add("interface_incomplete", "backend %s lacks %r" % (nm, missing), name=nm)
        nt = case["index"]
        faults = {"env": 1 if case["env"] else 0, "preimport": len(case["pre"]),
                  "importfail": len(importfail) + (0 if lo["qaptools"] else 1), "ipython": int(case["ipython"])}
        return {"violations": viol, "digest": E.sha((got, r["rc"], [v["oracle"] for v in viol])),
                "nontrivial": nt, "events": len(ev), "faults": faults,
                "probes": {"stage_" + str(stage): 1, "died_loudly": int(may_die and got is None)},
                "sigs": [E.sha((stage, got["backend_name"] if got else None))], "outcome": [r["rc"], got and got["backend_name"]]}

    def shrink_candidates(self, case):
        if case["pre"]:
            for i in range(len(case["pre"])):
                c = copy.deepcopy(case)
                del c["pre"][i]
                yield c
        for k in ("libsnark", "flatbuffers", "qaptools"):
            if not case["loadable"][k]:
                c = copy.deepcopy(case)
                c["loadable"][k] = True
                yield c
        if case["ipython"]:
            c = copy.deepcopy(case)
            c["ipython"] = False
            yield c


E.register(C19())


# ---------------------------------------------------------------------------------------
PUBLISHED = {
    "zkinterface": [0x299c867db6c1fdd79dcefa40e4510b9837e60ebb1ce0663dbaa525df65250465,
                    0x1148aaef609aa338b27dafd89bb98862d8bb2b429aceac47d86206154ffe053d,
                    0x24febb87fed7462e23f6665ff9a0111f4044c38ee1672c1ac6b0637d34f24907,
                    0x0eb08f6d809668a981c186beaf6110060707059576406b248e5d9cf6e78b3d3e,
                    0x07748bc6877c9b82c8b98666ee9d0626ec7f5be4205f79ee8528ef1c4a376fc7],
    "zkifbellman": [0x2a918b9c9f9bd7bb509331c81e297b5707f6fc7393dcee1b13901a0b22202e18,
                    0x65ebf8671739eeb11fb217f2d5c5bf4a0c3f210e3f3cd3b08b5db75675d797f7,
                    0x2cc176fc26bc70737a696a9dfd1b636ce360ee76926d182390cdb7459cf585ce,
                    0x4dc4e29d283afd2a491fe6aef122b9a968e74eff05341f3cc23fda1781dcb566,
                    0x03ff622da276830b9451b88b85e6184fd6ae15c8ab3ee25a5667be8592cce3b1],
}

_CONST_CACHE = {}


def poseidon_table():
    """poseidon_constants as data, read from /repo (pure data module)."""
    if "t" not in _CONST_CACHE:
        ns = {}
        with open(os.path.join(W.REPO, "pysnark", "poseidon_constants.py")) as f:
            exec(compile(f.read(), "poseidon_constants", "exec"), ns)
        _CONST_CACHE["t"] = ns["poseidon_constants"]
    return _CONST_CACHE["t"]


def ref_permute(state, c, p):
    R_F, R_P, t, a, rc, M = c["R_F"], c["R_P"], c["t"], c["a"], c["round_constants"], c["matrix"]

    def mix(s):
        return [sum(M[i][k] * s[k] for k in range(t)) % p for i in range(t)]
    r = 0
    for _ in range(R_F // 2):
        state = mix([pow((x + k) % p, a, p) for x, k in zip(state, rc[r])])
        r += 1
    for _ in range(R_P):
        state = [(x + k) % p for x, k in zip(state, rc[r])]
        state[0] = pow(state[0], a, p)
        state = mix(state)
        r += 1
    for _ in range(R_F // 2):
        state = mix([pow((x + k) % p, a, p) for x, k in zip(state, rc[r])])
        r += 1
    return state


def ref_sponge(msg, c, p):
    t = c["t"]
    rate = t - 1
    padded = list(msg) + [1]
    while len(padded) % rate:
        padded.append(0)
    state = [0] * t
    for i in range(0, len(padded), rate):
        blk = padded[i:i + rate]
        state = [state[0]] + [(s + b) % p for s, b in zip(state[1:], blk)]
        state = ref_permute(state, c, p)
    return state[1:]


def params_digest(c):
    return E.sha((c["R_F"], c["R_P"], c["t"], c["a"], c["round_constants"], c["matrix"]))


C20_BODY = r'''
import hashlib
def _pd(ph):
    return {"R_F": ph.R_F, "R_P": ph.R_P, "t": ph.t, "a": ph.a, "rc": ph.round_constants, "matrix": ph.matrix}
try:
    import pysnark.poseidon_hash as _ph
except NotImplementedError as _e:
    _side({"ev": "poseidon_unavailable", "msg": str(_e)})
    _ph = None
if _ph is not None:
    _side({"ev": "poseidon_params", "params": _pd(_ph)})
    if _rt.backend_name != "nobackend" and _cfg.get("guarded_first"):
        _gc = PrivValBool(_cfg["guarded_first"]["cond"])
        for _n in _cfg["guarded_first"]["lengths"]:
            guarded(_gc)(lambda: _ph.poseidon_hash([PrivVal(3 + _k) for _k in range(_n)]))()
        _side({"ev": "guarded_first", "cond": _cfg["guarded_first"]["cond"]})
    if _rt.backend_name != "nobackend":
        for _vec in _cfg["perm_inputs"]:
            _n0 = _rt.num_constraints
            _st = [PrivVal(v) for v in _vec]
            _out = _ph.permute(_st)
            _side({"ev": "permute", "inp": _vec, "out": [x.value for x in _out], "ncons": _rt.num_constraints - _n0})
            # the caller goes on using its state list (a second application, a feed-forward): it must be what it was
            _out2 = _ph.permute(_st)
            _side({"ev": "permute_again", "inp": _vec, "state_after": [getattr(x, "value", x) for x in _st],
                   "same_objects": len(_st) == len(_vec), "out": [x.value for x in _out], "out2": [x.value for x in _out2]})
        for _msg in _cfg["messages"]:
            _n0 = _rt.num_constraints
            _lst = [PrivVal(v) for v in _msg]
            _out = _ph.poseidon_hash(_lst)
            _side({"ev": "hash", "msg": _msg, "out": [x.value for x in _out], "ncons": _rt.num_constraints - _n0})
            # the same list object again: hashing must not have changed the caller's list
            _n0 = _rt.num_constraints
            _out = _ph.poseidon_hash(_lst)
            _side({"ev": "hash", "msg": _msg, "out": [x.value for x in _out], "ncons": _rt.num_constraints - _n0,
                   "again": True, "len_after": len(_lst)})
            # the message handed over as something other than a list (one-shot iterators included): either refused
            # or hashed like the list
            for _kind, _mk in (("tuple", tuple), ("iter", iter), ("generator", lambda l: (x for x in l)),
                               ("map", lambda l: map(lambda x: x, l))):
                try:
                    _out = _ph.poseidon_hash(_mk(list(_lst)))
                    _side({"ev": "hash", "msg": _msg, "out": [x.value for x in _out], "ncons": None, "form": _kind})
                except Exception as _e:
                    _side({"ev": "hash_refused", "form": _kind, "error": type(_e).__name__})
if _rt.backend_name != "nobackend":
    from pysnark.ggh_hash import ggh_hash, ggh_hash_plain
    for _bits in _cfg["bitstrings"]:
        _n0 = _rt.num_constraints
        _t = ggh_hash([PrivVal(b) for b in _bits])
        _side({"ev": "ggh", "bits": _bits, "traced": _t.value, "plain": ggh_hash_plain(_bits),
               "ncons": _rt.num_constraints - _n0, "modulus": _b.get_modulus()})
        # the same bits as the library's own boolean type (what to_bits() hands out), and with some of them public
        for _kind, _mk in (("bool", lambda j, b: PrivValBool(b)),
                           ("mixed", lambda j, b: b if _cfg.get("ggh_public", [])[j % max(1, len(_cfg.get("ggh_public", [1])))] else PrivVal(b))):
            if _kind == "mixed" and not any(_cfg.get("ggh_public", [])):
                continue
            try:
                _t = ggh_hash([_mk(j, b) for j, b in enumerate(_bits)])
                _side({"ev": "ggh", "bits": _bits, "traced": getattr(_t, "value", _t), "plain": ggh_hash_plain(_bits),
                       "modulus": _b.get_modulus(), "kind": _kind})
            except Exception as _e:
                _side({"ev": "ggh_raised", "bits": _bits, "kind": _kind, "error": type(_e).__name__ + ": " + str(_e)[:120]})
_rt.autoprove = False
'''


_GGH_COEFF = {}


def ggh_reference(bits, p):
    """Independent plain subset-sum hash: coefficient i is the first SHA512(i || it), read little-endian and cut to
    ceil(log2 p) bits (= p.bit_length() for a prime), that is below p."""
    import hashlib
    import struct
    total = 0
    for i, b in enumerate(bits):
        if (p, i) not in _GGH_COEFF:
            it = 0
            while True:
                val = int.from_bytes(hashlib.sha512(struct.pack("=QQ", i, it)).digest(), "little") % (1 << p.bit_length())
                if val < p:
                    break
                it += 1
            _GGH_COEFF[(p, i)] = val
        total = (total + b * _GGH_COEFF[(p, i)]) % p
    return total


class C20(TraceCheck):
    name = "C20"
    prop = "C20"
    props = ()
    budget = {"quick": 192, "thorough": 3000}
    components = REAL_EXIT + "; the reference Poseidon permutation/sponge and subset-sum are plain-integer code in " \
        "the checker, with round constants and matrices read from pysnark/poseidon_constants.py as data"
    run_cap_s = 600
    PATHS = ["env", "preimport", "auto", "env+preimport_other"]
    BACKENDS = ["zkinterface", "zkifbellman", "zkifbulletproofs", "snarkjs", "qaptools", "nobackend"]
    rule = ("one fresh interpreter per (how the backend got selected: PYSNARK_BACKEND, pre-import, auto-detection, "
            "pre-import overriding a different PYSNARK_BACKEND) x backend/field x seeded inputs: the parameter set "
            "the hash module ends up with must be the table entry of runtime.backend_name (unavailable if there "
            "is none; the toy set only for nobackend); traced permutation and sponge (messages of 0..3 blocks, "
            "values across the field) equal the checker's plain-integer reference and the published vectors; "
            "constraint counts equal across inputs of equal length; traced subset-sum hash equals the library's plain one and the checker's own reference (coefficients = first SHA512(i || counter), cut to ceil(log2 p) bits, below p). "
            "non-trivial = distinct (selection path, backend, inputs) judged")

    def gen(self, rng, i, tier):
        path = self.PATHS[i % len(self.PATHS)]
        backend = self.BACKENDS[(i // len(self.PATHS)) % len(self.BACKENDS)]
        p = W.PRIMES.get(backend, W.BN254)

        def val():
            u = rng.random()
            if u < 0.4:
                return rng.randrange(0, 10)
            if u < 0.6:
                return rng.choice([p - 1, p - 2, (p - 1) // 2])
            return rng.randrange(p)
        perm = [[0, 1, 2, 3, 4], [val() for _ in range(5)]]
        L = rng.choice([0, 1, 3, 4, 5, 8, 9, 12])
        messages = [[val() for _ in range(L)], [val() for _ in range(L)]]
        if tier == "thorough":
            messages.append([val() for _ in range(rng.randrange(0, 13))])
        bits = [[rng.randrange(2) for _ in range(rng.choice([1, 8, 33]))] for _ in range(2)]
        other = rng.choice([b for b in self.BACKENDS if b != backend])
        case = {"path": path, "backend": backend, "other": other, "perm_inputs": perm, "messages": messages,
                "bitstrings": bits}
        case["ggh_public"] = [rng.randrange(2) for _ in range(rng.choice([1, 2, 3, 5]))]
        if rng.random() < 0.35:
            # history: the first hashes of the run happen inside a region guarded by a secret condition (taken or
            # not), e.g. an optional Merkle level; whatever they leave behind must not change later hashes
            case["guarded_first"] = {"cond": rng.choice([0, 0, 1]), "lengths": sorted({L, rng.choice([0, 1, 2, 3, 4])})}
        return case

    def run(self, case):
        backend, path = case["backend"], case["path"]
        env = X.child_env(None, stubs=True)
        cfg = {"perm_inputs": case["perm_inputs"], "messages": case["messages"], "bitstrings": case["bitstrings"],
               "preimport": [], "importfail": []}
        if case.get("guarded_first"):
            cfg["guarded_first"] = case["guarded_first"]
        cfg["ggh_public"] = case.get("ggh_public", [])
        if path == "env":
            env["PYSNARK_BACKEND"] = backend
        elif path == "preimport":
            cfg["preimport"] = [NAME_TABLE[backend][0]]
        elif path == "env+preimport_other":
            env["PYSNARK_BACKEND"] = case["other"]
            cfg["preimport"] = [NAME_TABLE[backend][0]]
        else:  # auto-detection: make `backend` the first loadable one
            if backend == "snarkjs":
                env["QAPTOOLS_BIN"] = "/nonexistent-qaptools-bin"
            elif backend == "qaptools":
                pass
            elif backend == "nobackend":
                cfg["ipython"] = True
            else:
                # zkinterface variants are never reached by auto-detection (snarkjs is always loadable);
                # make snarkjs the detected backend instead
                env["QAPTOOLS_BIN"] = "/nonexistent-qaptools-bin"
        r = X.run_child(C20_BODY, cfg, env, timeout=500)
        if r["rc"] == "timeout":
            raise W.HarnessError("child timed out")
        ev = r["events"]
        imported = [e for e in ev if e["ev"] == "imported"]
        if not imported:
            raise W.HarnessError("runtime import failed: " + r["stderr"][-400:])
        name = imported[0]["backend_name"]
        table = poseidon_table()
        p = W.PRIMES.get(name, None)
        viol = []
        site0 = {"path": path, "backend": name}

        def add(oracle, detail, **extra):
            s = dict(site0)
            s.update(extra)
            if not any(v["oracle"] == oracle and v["site"] == s for v in viol):
                viol.append({"property": "C20", "oracle": oracle, "site": s, "detail": detail})
        params = [e for e in ev if e["ev"] == "poseidon_params"]
        unavailable = [e for e in ev if e["ev"] == "poseidon_unavailable"]
        if r["rc"] != 0 and not params and not unavailable:
            add("hash_module_failed", "rc=%r %s" % (r["rc"], (r["stderr"].strip().splitlines() or [""])[-1][:200]))
        c = None
        if params:
            got = params[0]["params"]
            gd = E.sha((got["R_F"], got["R_P"], got["t"], got["a"], got["rc"], got["matrix"]))
            which = [k for k in table if params_digest(table[k]) == gd]
            if name in table:
                if gd != params_digest(table[name]):
                    add("wrong_parameters", "backend %s selected through %s uses the parameter set of %s" % (
                        name, path, which or "nobody"), uses=(which or ["unknown"])[0])
                c = table[name]
            else:
                add("wrong_parameters", "backend %s has no registered parameter set but the hash module runs with "
                    "the set of %s" % (name, which or "nobody"), uses=(which or ["unknown"])[0])
        elif unavailable and name in table:
            add("wrong_parameters", "backend %s has a registered parameter set but the hash module refused to "
                "load: %s" % (name, unavailable[0]["msg"]), uses="none")
        nt = []
        if c is not None and p is not None and not viol:
            counts = {}
            for e in ev:
                if e["ev"] == "permute":
                    want = ref_permute([v % p for v in e["inp"]], c, p)
                    if [v % p for v in e["out"]] != want:
                        add("permutation_ne_reference", "permute(%r...) differs from the plain-integer reference" % (
                            e["inp"][:2],))
                    if e["inp"] == [0, 1, 2, 3, 4] and name in PUBLISHED and [v % p for v in e["out"]] != PUBLISHED[name]:
                        add("published_vector", "permute([0,1,2,3,4]) does not reproduce the published vector")
                    counts.setdefault(("perm", 5), set()).add(e["ncons"])
                    nt.append(E.sha((path, name, e["inp"])))
                elif e["ev"] == "hash":
                    want = ref_sponge([v % p for v in e["msg"]], c, p)
                    if [v % p for v in e["out"]] != want:
                        add("sponge_ne_reference", "poseidon_hash of a %d-element message differs from the reference "
                            "(10* padding to a multiple of t-1)" % len(e["msg"]), length=len(e["msg"]) % (c["t"] - 1))
                    if e.get("ncons") is not None:
                        counts.setdefault(("hash", len(e["msg"])), set()).add(e["ncons"])
                    if e.get("again") and e.get("len_after") != len(e["msg"]):
                        add("hash_mutates_its_argument", "the caller's message list has %d elements after hashing, had %d" % (
                            e["len_after"], len(e["msg"])))
                    nt.append(E.sha((path, name, e["msg"])))
            for k, s in counts.items():
                if len(s) > 1:
                    add("constraint_count_depends_on_input", "%s: %r constraints for inputs of equal length" % (k, sorted(s)))
        for e in ev:
            if e["ev"] == "permute_again":
                pp = W.PRIMES.get(name)
                if pp and ([v % pp for v in e["state_after"]] != [v % pp for v in e["inp"]] or
                           [v % pp for v in e["out2"]] != [v % pp for v in e["out"]]):
                    add("permute_mutates_its_argument", "after permute(state) the caller's state list holds other values "
                        "/ a second application of the same state gives another result")
            if e["ev"] == "ggh_raised":
                add("ggh_raised", "subset-sum hash of %d %s bits raised %s" % (len(e["bits"]), e["kind"], e["error"]),
                    kind=e["kind"])
            if e["ev"] == "ggh":
                if e["traced"] % e["modulus"] != e["plain"] % e["modulus"]:
                    add("ggh_ne_plain", "traced subset-sum hash differs from the plain one on %d bits" % len(e["bits"]))
                elif name in W.PRIMES and e["traced"] % W.PRIMES[name] != ggh_reference(e["bits"], W.PRIMES[name]):
                    add("ggh_ne_reference", "subset-sum hash of %d bits differs from the reference (coefficient i = first "
                        "SHA512(i || counter), cut to ceil(log2 p) bits, that is below p)" % len(e["bits"]))
                nt.append(E.sha((path, name, e["bits"])))
        return {"violations": viol, "digest": E.sha((name, [(e["ev"], e.get("out"), e.get("traced")) for e in ev],
                                                     [v["oracle"] for v in viol])),
                "nontrivial": None, "nontrivial_list": nt or [E.sha((path, name))], "events": len(ev),
                "faults": dict({"select:" + path: 1}, **({"guarded_first:%d" % case["guarded_first"]["cond"]: 1}
                                                         if any(e["ev"] == "guarded_first" for e in ev) else {})),
                "probes": {"backend_" + name: 1,
                                                              "poseidon_unavailable": int(bool(unavailable))},
                "sigs": [E.sha((path, name))], "outcome": [r["rc"], name]}

    def shrink_candidates(self, case):
        for k in ("messages", "perm_inputs", "bitstrings"):
            if len(case[k]) > 1:
                c = copy.deepcopy(case)
                c[k] = c[k][:1]
                yield c
            if case[k]:
                c = copy.deepcopy(case)
                c[k] = []
                yield c


E.register(C20())


# ---------------------------------------------------------------------------------------
class C07(ProverCheck):
    name = "C07"
    prop = "C07"
    props = ("C01", "C07")
    budget = {"quick": 2500, "thorough": 150000}
    components = REAL_TRACE
    toggles = ("div", "bits", "shift", "pow", "boolop", "check", "tobits", "tobool", "assert", "ite_call",
               "array", "aset", "set_ie")
    weights = dict(FULL_MIX, guarded=7, ite_call=4, set_ie=0.8, val=0.3, div=5, tobool=2, tobits=2, assert_=4)
    rule = ("guarded regions (decorator form and lazily evaluated if_then_else branches, nesting <= 3, raw 0/1 "
            "and boolean-typed conditions, each level's condition 0 or 1) whose bodies are drawn from every "
            "operator and assertion, on operands that are often invalid for the body (out of range at bitlength "
            "3-5, zero divisors, inexact quotients, failing assertions, out-of-range indices). false guard: no "
            "value-caused exception may be raised inside, the whole trace stays satisfied, and lies on hint wires "
            "allocated inside the dead region cannot move any value visible outside. true guard: an "
            "'unguarded twin' of the same source (regions called directly when their condition is 1, skipped "
            "when 0) must produce the same final values and raise the same errors at the same statements. "
            "non-trivial = distinct (plan, inputs) with at least one statement executed under a false guard")

    def cfg(self, rng):
        c = swarm_cfg(rng, W.DICT_BACKENDS, fxp_p=0.3, bits=(3, 4, 4, 5, 8))
        c["max_nesting"] = rng.choice([1, 2, 3])
        c["p_try"] = 1.0
        c["value_bias"] = rng.choice(["tiny", "mixed", "mixed"])
        return c

    def gen(self, rng, i, tier):
        cfg = self.cfg(rng)
        w = swarm_weights(rng, self.weights, self.toggles)
        cfg["no_const_zero_divisor"] = True
        # ignore_errors is toggled at top level only: a toggle inside a region is undone when the region ends
        # (C08), which the unguarded twin cannot mimic
        cfg["set_ie_top_only"] = True
        # a write to an array that lives outside the region is a Python side effect which a false guard does not
        # undo (guarded() is not transactional; the block API is the tool for that): not part of the twin comparison
        cfg["no_aset_in_regions"] = True
        cfg["plain_conds"] = [1]        # (a public false condition is refused: nothing for the unguarded twin to mirror)
        plan = P.generate(rng, cfg, w)
        dead_field_zero_tail(plan)
        return {"plan": plan, "seed": rng.randrange(1 << 30)}

    def run(self, case):
        plan = case["plan"]
        rng = _random.Random(case["seed"])
        tr = T.TraceRun(plan, props=self.props).run()
        viol = [dict(v) for v in tr.violations if v["property"] in ("C07",)]
        for v in tr.violations:
            if v["property"] == "C01" and (v["site"].get("dead") or v["site"].get("guarded")):
                s = dict(v["site"])
                viol.append({"property": "C07", "oracle": "unsat_under_guard", "site": s, "detail": v["detail"]})
        probes = dict(tr.probes)
        faults = {}
        events = tr.steps + tr.w.rec.seam_calls
        dead_seen = bool(tr.probes.get("step_in_dead_region"))
        if dead_seen:
            faults["guard0"] = 1
        if any(d for (_, _, d, _) in tr.caught_ctx):
            probes["exception_in_dead_region"] = 1
        if tr.outcome == "completed":
            # (true guard) unguarded twin
            tw = T.TraceRun(plan, props=(), mode="unguarded").run()
            events += tw.steps
            live_caught = [(s, c) for (s, c, d, _) in tr.caught_ctx if not d]
            tw_caught = [(s, c) for (s, c, d, _) in tw.caught_ctx]
            if tw.outcome != "completed":
                probes["twin_raised"] = 1
            elif live_caught != tw_caught:
                k = next((i for i, (a, b) in enumerate(zip(live_caught, tw_caught)) if a != b),
                         min(len(live_caught), len(tw_caught)))
                a = live_caught[k] if k < len(live_caught) else None
                b = tw_caught[k] if k < len(tw_caught) else None
                site = (a or b)[0]
                s = dict(tr.gen.sites.get(site, {}).get("desc") or {})
                s["guarded_exc"] = a[1] if a else None
                s["unguarded_exc"] = b[1] if b else None
                viol.append({"property": "C07", "oracle": "true_guard_errors_differ", "site": s,
                             "detail": "under true guards the script caught %r, unguarded it caught %r" % (a, b)})
            else:
                for nm in tr.finals:
                    if nm in tw.finals and tr.finals[nm][0] % tr.w.rec.p != tw.finals[nm][0] % tr.w.rec.p:
                        s = dict(tr.gen.origin.get(nm, {}))
                        viol.append({"property": "C07", "oracle": "true_guard_value_differs", "site": s,
                                     "detail": "%s = %d guarded, %d unguarded" % (nm, tr.finals[nm][0], tw.finals[nm][0])})
                        break
                probes["twin_compared"] = 1
            # (false guard) lies on hints allocated inside dead regions
            if dead_seen and not tr.caught and not any(tr.w.rec.cons_flags):
                trace = PV.Trace(tr)
                base = trace.base_assignment()
                if not trace.unsat(base):
                    deadrids = set()
                    for (site, n) in tr.marks:
                        pass
                    dead_hints = []
                    for k in trace.hints:
                        site = trace.alloc_stmt.get(k)
                        rs = tr.gen.sites.get(site, {}).get("rstack", ())
                        if any(tr.region_dead.get(r) for r in rs):
                            dead_hints.append(k)
                    if dead_hints:
                        atk = PV.Attack(trace, PV.plan_consts(plan))
                        b = plan["cfg"]["bitlength"]
                        tried = 0
                        for k in dead_hints[:12]:
                            for cand in atk.candidates(k, rng, b)[:14]:
                                tried += 1
                                v, a = atk.try_lie({k: cand}, do_repair=False)
                                if v is None or v[0] == "same":
                                    # re-derivation confined to wires allocated under false guards (dummy wires
                                    # of the guarded constraints included)
                                    v, a = atk.try_lie({k: cand}, do_repair=True, allowed=set(dead_hints))
                                if v is not None and v[0] != "same":
                                    s = dict(v[1]["desc"])
                                    s["mode"] = "dead-hint"
                                    viol.append({"property": "C07", "oracle": "dead_region_moves_result", "site": s,
                                                 "detail": "lie %r on a hint allocated under a false guard satisfies "
                                                           "everything and moves %s" % ({k: cand}, v[1]["name"])})
                                    break
                            else:
                                continue
                            break
                        faults["lie-wire"] = tried
                        probes["dead_hints_attacked"] = len(dead_hints)
        nt = P.plan_digest(plan) if dead_seen else None
        if tr.type_leak or tr.nonbool_guard:
            viol = []
            probes["run_not_judged"] = 1
        # de-duplicate
        out = []
        for v in viol:
            if not any(x["oracle"] == v["oracle"] and x["site"] == v["site"] for x in out):
                out.append(v)
        return {"violations": out, "digest": E.sha((tr.digest_material(), [v["detail"] for v in out])),
                "nontrivial": nt, "events": events, "faults": faults, "probes": probes,
                "sigs": [E.sha(s) for s in tr.state_sigs], "outcome": tr.outcome}

    def shrink_candidates(self, case):
        return P.shrink_plan_candidates(case)


E.register(C07())


# ---------------------------------------------------------------------------------------
class BlockGen:
    """Generator of block-API plans (C09)."""

    def __init__(self, rng, cfg):
        self.r = rng
        self.cfg = cfg
        self.small = bool(cfg.get("block_small"))     # tiny programs for the lying-prover search of C02
        self.names = ["x%d" % i for i in range(rng.randrange(1, 4))]
        if rng.random() < 0.2:
            self.names[-1] = "_" + self.names[-1]        # (a variable name may start with an underscore)
        # list-valued tracked variables (flat and nested), assigned cell by cell inside blocks
        self.lists = {}
        if rng.random() < 0.45:
            self.lists["l0"] = [rng.randrange(2, 4)]
        if rng.random() < 0.5:
            self.lists["m0"] = [2, rng.randrange(1, 3)]
        # a matrix held as an Array of Arrays (cells written with public indices inside blocks)
        self.array_names = set()
        if rng.random() < 0.25:
            self.lists["a0"] = [rng.randrange(2, 4), 2]
            self.array_names.add("a0")
        if self.small:
            self.names, self.lists, self.array_names = self.names[:1], {}, set()
        # plain Python lists outside the BranchingValues object that get bound to the list variable l0 as a whole
        # (`_.best = offer`); l0 is then never written cell by cell (Python-level aliasing is the caller's business)
        self.ext = ["e0", "e1"] if ("l0" in self.lists and rng.random() < 0.5) else []
        self.n_inputs = 0
        self.loopvars = []
        self.depth = 0
        self.lvn = 0
        # a 0/1 "flag" variable used directly as a condition: starts as a public int, becomes a raw secret integer
        # (1 - comparison) or stays public, depending on what the blocks assign
        self.flags = ["g0"] if rng.random() < (0.6 if self.small else 0.35) else []
        # a boolean-typed variable: always holds a comparison result, used as a condition of blocks and selections
        self.bools = ["b0"] if rng.random() < 0.3 else []

    def cell(self, write=False):
        names = sorted(n for n in self.lists if not (write and self.ext and n == "l0"))
        if not names:
            return None
        nm = self.r.choice(names)
        return nm, [self.r.randrange(d) for d in self.lists[nm]]

    def leaf(self):
        r = self.r
        u = r.random()
        if self.lists and u < 0.12:
            nm, path = self.cell()
            return {"tv": nm, "path": path}
        if self.ext and u < 0.2:
            return {"ext": r.choice(self.ext), "path": [r.randrange(self.lists["l0"][0])]}
        if u < 0.45:
            return {"tv": r.choice(self.names)}
        if u < 0.6 and self.loopvars:
            return {"lv": r.choice(self.loopvars)}
        if u < 0.75:
            return {"ref": r.randrange(0, 8), "t": "I"}
        return {"k": r.choice([0, 1, 2, 3, -1, 5])}

    def expr(self):
        r = self.r
        u = r.random()
        if u < 0.35:
            return self.leaf()
        if u < 0.8:
            return {"op": r.choice(["+", "-"]), "a": self.leaf(), "b": self.leaf()}
        if u < 0.86:
            return {"op": "*", "a": self.leaf(), "b": {"k": r.choice([0, 1, 2, -1])}}
        if u < 0.89:
            return self.cmp()        # a comparison result stored in an integer variable (merged with integers later)
        if u < 0.92 and not self.small:
            # operations that compute their result from hint wires (quotient, remainder, bits): under a false
            # block guard those hints are dummies and the merged result must still be the native one
            # ("+ 0": a variable may hold a stored comparison result, and booleans have no // % >>)
            return {"op": r.choice(["//", "%", ">>"]), "a": {"op": "+", "a": self.leaf(), "b": {"k": 0}},
                    "b": {"k": r.choice([1, 2, 3])}}
        e = {"call": r.choice(["ite", "ite_lazy"]), "cond": self.cmp(), "t_": self.leaf(), "f_": self.leaf()}
        if self.bools and r.random() < 0.4:
            e["cond"] = {"tv": "b0"}
        if e["call"] == "ite_lazy" and r.random() < 0.15:
            e["same"], e["f_"] = True, e["t_"]
        return e

    def secret(self, e):
        """e + 0*secret: same value, guaranteed secret-typed (the property is about secret conditions)."""
        if "ref" in e:
            return e
        return {"op": "+", "a": e, "b": {"op": "*", "a": {"ref": self.r.randrange(0, 8), "t": "I"}, "b": {"k": 0}}}

    def cmp(self):
        r = self.r
        a = {"tv": r.choice(self.names)} if r.random() < 0.7 else {"ref": r.randrange(0, 8), "t": "I"}
        return {"op": r.choice(["<", "<=", "==", "!=", ">", ">="]), "a": self.secret(a), "b": self.leaf()}

    def flag_expr(self):
        r = self.r
        u = r.random()
        if u < 0.25:
            return {"k": 1}      # (a public 0 as a block condition is refused as unreachable code: not generated)
        if u < 0.75:
            return {"op": "-", "a": {"k": 1}, "b": self.cmp()}       # raw secret integer 0/1
        return {"op": "*", "a": {"tv": "g0"}, "b": {"op": "-", "a": {"k": 1}, "b": self.cmp()}}

    def cond(self, flag_ok=False):
        r = self.r
        if self.bools and r.random() < 0.2:
            return {"tv": "b0"}
        if flag_ok and self.flags and r.random() < 0.6:
            # (only as a loop condition - `_.go = 1; while _while(_.go): ...`: the library refuses a public false
            # condition as unreachable code, which an _if/_else on a public flag runs into by construction)
            return {"tv": "g0"}
        a = {"tv": r.choice(self.names)} if r.random() < 0.7 else {"ref": r.randrange(0, 8), "t": "I"}
        b = self.leaf()
        return {"op": r.choice(["<", "<=", "==", "!=", ">", ">="]), "a": self.secret(a), "b": b}

    def body(self, nmax=3):
        if self.small:
            nmax = min(nmax, 2)
        return [self.stmt() for _ in range(self.r.randrange(1, nmax + 1))]

    def itermax(self):
        return self.r.randrange(1, 3 if self.small else 5)

    def stmt(self):
        r = self.r
        u = r.random()
        if self.depth >= self.cfg.get("max_nesting", 2) or u < 0.5:
            if self.flags and r.random() < 0.2:
                return {"s": "track", "name": "g0", "e": self.flag_expr()}
            if self.bools and r.random() < 0.15:
                return {"s": "track", "name": "b0", "e": self.cmp()}
            if self.ext and r.random() < 0.3:
                return {"s": "track", "name": "l0", "e": {"ext": r.choice(self.ext)}}
            if self.lists and r.random() < 0.45:
                c = self.cell(write=True)
                if c is not None:
                    return {"s": "track", "name": c[0], "path": c[1], "e": self.expr()}
            return {"s": "track", "name": r.choice(self.names), "e": self.expr()}
        self.depth += 1
        try:
            if u < 0.75:
                s = {"s": "block_if", "cond": self.cond(), "then": self.body()}
                s["elifs"] = [[self.cond(), self.body(2)] for _ in range(r.choice([0, 0, 1, 2]))]
                s["else"] = self.body(2) if r.random() < 0.6 else None
                if self.depth == 1 and r.random() < 0.2:
                    # a variable that first comes into being inside the block: assigned in every branch
                    self.lvn += 1
                    fresh = "y%d" % self.lvn
                    if s["else"] is None:
                        s["else"] = []
                    for b in [s["then"]] + [b for _, b in s["elifs"]] + [s["else"]]:
                        b.insert(r.randrange(0, len(b) + 1), {"s": "track", "name": fresh, "e": self.expr()})
                    s["fresh"] = fresh
                    self.names.append(fresh)
                return s
            if u < 0.88:
                s = {"s": "block_while", "cond": self.cond(flag_ok=True), "max": self.itermax(), "body": self.body()}
                if r.random() < 0.5:
                    s["breakif"] = self.cond()
                    s["break_pos"] = r.randrange(0, len(s["body"]) + 1)
                return s
            self.lvn += 1
            lv = "_i%d" % self.lvn
            stop = {"ref": r.randrange(0, 8), "t": "I"}     # inputs are >= 0: the documented domain of a bound
            self.loopvars.append(lv)
            s = {"s": "block_for", "stop": stop, "max": self.itermax(), "lv": lv,
                 "checkstopmax": r.random() < 0.4, "body": self.body()}
            if r.random() < 0.12:
                # a PUBLIC bound: a small constant or the variable of an enclosing loop (triangular loops); zero
                # iterations are possible (the library refuses a public false condition as unreachable code: such
                # runs are not judged)
                s["stop"] = {"lv": r.choice(self.loopvars[:-1])} if len(self.loopvars) > 1 else {"k": r.randrange(0, 3)}
                s["checkstopmax"] = False
                s["max"] = 8          # (the cap only applies to secret bounds: keep it above every public bound)
            elif r.random() < 0.2:
                # the two-argument form: public start, secret stop >= start, cap above the start
                s["start"] = r.choice([0, 1, 2, 3])
                s["stop"] = {"op": "+", "a": stop, "b": {"k": s["start"]}}
                s["max"] += s["start"]
            if r.random() < 0.2 and self.depth < self.cfg.get("max_nesting", 2):
                # one _range object stored in a variable and used by this loop and by a loop nested in it
                self.lvn += 1
                rv = "_rg%d" % self.lvn
                inner_lv = "_i%d" % self.lvn
                self.loopvars.append(inner_lv)
                inner = {"s": "block_for", "stop": s["stop"], "max": s["max"], "lv": inner_lv, "checkstopmax": s["checkstopmax"],
                         "range_var": rv, "body": self.body(2)}
                if "start" in s:
                    inner["start"] = s["start"]
                self.loopvars.pop()
                s["range_var"] = rv
                s["range_def"] = True
                s["body"].insert(r.randrange(0, len(s["body"]) + 1), inner)
            if r.random() < 0.3:
                s["breakif"] = self.cond()
                s["break_pos"] = r.randrange(0, len(s["body"]) + 1)
            self.loopvars.pop()
            return s
        finally:
            self.depth -= 1

    def plan(self):
        r = self.r
        n_in = r.randrange(1, 4)
        inputs = [{"kind": r.choice(["priv", "priv", "pub"]), "t": "I", "v": r.choice([0, 1, 2, 3, 4, 5, 6, 7])}
                  for _ in range(n_in)]
        body = []
        for nm in self.names:
            e = {"ref": r.randrange(0, 8), "t": "I"} if r.random() < 0.5 else {"k": r.choice([0, 1, 2, 3, 10])}
            body.append({"s": "tracked_init", "name": nm, "e": e})
        for nm in self.bools:
            body.append({"s": "tracked_init", "name": nm, "e": self.cmp()})
        for nm in self.flags:
            body.append({"s": "tracked_init", "name": nm, "e": {"k": 1} if r.random() < 0.7 else
                         {"op": "-", "a": {"k": 1}, "b": {"op": "==", "a": {"ref": r.randrange(0, 8), "t": "I"},
                                                        "b": {"k": r.choice([0, 1, 2])}}}})
        for nm in sorted(self.lists):
            dims = self.lists[nm]

            def lit(d):
                if len(d) == 1:
                    return {"list": [({"ref": r.randrange(0, 8), "t": "I"} if r.random() < 0.4 else
                                      {"k": r.choice([0, 1, 2, 3, 9])}) for _ in range(d[0])]}
                return {"list": [lit(d[1:]) for _ in range(d[0])]}
            body.append({"s": "tracked_init", "name": nm, "e": dict(lit(dims), array=True) if nm in self.array_names
                         else lit(dims)})
        for nm in self.ext:
            body.append({"s": "ext_list", "name": nm, "e": lit(self.lists["l0"])})
        for _ in range(r.randrange(1, 3 if self.small else 5)):
            body.append(self.stmt())
        if self.flags and r.random() < (0.6 if self.small else 0.4):
            # the flag-loop idiom: `_.go = 1; while _while(_.go): ...; _.go = 1 - (x == target)`
            self.depth += 1
            lb = self.body(1) if r.random() < 0.5 else []
            self.depth -= 1
            nm = r.choice(self.names)
            lb.insert(r.randrange(0, len(lb) + 1),
                      {"s": "track", "name": nm, "e": {"op": "+", "a": {"tv": nm}, "b": {"k": r.choice([1, 2, 3])}}})
            lb.insert(r.randrange(0, len(lb) + 1),
                      {"s": "track", "name": "g0", "e": {"op": "-", "a": {"k": 1}, "b": self.cmp()}})
            loop = {"s": "block_while", "cond": {"tv": "g0"}, "max": r.randrange(2, 4), "body": lb}
            n_init = sum(1 for s_ in body if s_["s"] in ("tracked_init", "ext_list"))
            body.insert(r.randrange(n_init, len(body) + 1), loop)
        return {"cfg": self.cfg, "inputs": inputs, "body": body, "blocks": True}


class C09(TraceCheck):
    name = "C09"
    prop = "C09"
    props = ("C01",)
    budget = {"quick": 2000, "thorough": 80000}
    rule = ("programs over the oblivious block API (_if/_elif/_else/_endif, _while/_breakif/_endwhile with a public "
            "iteration cap, _range with a secret bound capped by max with and without checkstopmax, lazily "
            "evaluated if_then_else) on 1-3 tracked variables, nesting <= 3, <= 4 iterations, conditions that are "
            "comparison results on secrets; executed (a) traced, (b) as a native-control-flow twin generated from "
            "the same plan on plain ints, (c) traced on a second input vector. oracle: final tracked variables "
            "equal the native twin's (same exception class if it raises), every emitted constraint satisfied, "
            "identical constraint system across the two input vectors, no block left open; 5 % of the plans are "
            "retry histories: one loop (one source line, one BranchingValues object) run 3-6 times, some runs "
            "abandoned by an exception the program catches, the loop closed in a finally. non-trivial = distinct "
            "plans containing at least one block whose traced run completed")

    def cfg(self, rng):
        return {"backend": rng.choice(W.DICT_BACKENDS), "bitlength": rng.choice([8, 12, 16]), "resolution": 2,
                "max_nesting": rng.choice([1, 2, 3]), "p_try": 0.0, "fxp": False}

    def gen(self, rng, i, tier):
        cfg = self.cfg(rng)
        if i % 20 == 19:
            # history: one loop (one source line, one BranchingValues object) run again and again by the program; some
            # of the runs are abandoned by an exception that the program catches (the loop is closed in a finally)
            inputs = [{"kind": "priv", "t": "I", "v": rng.choice([0, 1, 2, 3, 4])} for _ in range(2)]
            att = []
            for k in range(rng.randrange(2, 6)):
                a = {"start": rng.choice([0, 7, 10, 50, 100]), "n": {"ref": rng.randrange(2), "t": "I"},
                     "step": rng.choice([1, 2, 5])}
                if k > 0 or rng.random() < 0.5:
                    u = rng.random()
                    if u < 0.3:
                        a["poison"] = "float"
                    elif u < 0.45:
                        a["poison"], a["bug"] = "bug", rng.randrange(1, 4)
                att.append(a)
            att.append({"start": rng.choice([3, 20, 100]), "n": {"ref": rng.randrange(2), "t": "I"}, "step": rng.choice([1, 5])})
            plan = {"cfg": cfg, "inputs": inputs, "body": [{"s": "retry_while", "attempts": att, "maxit": rng.choice([2, 3, 4])}]}
            return {"plan": plan, "alt_inputs": [rng.choice([0, 1, 2, 3, 4]) for _ in inputs]}
        g = BlockGen(rng, cfg)
        plan = g.plan()
        alt = [rng.choice([0, 1, 2, 3, 4, 5, 6, 7]) for _ in plan["inputs"]]
        if rng.random() < 0.25:
            plan["in_function"] = True      # the program is a function with its own BranchingValues, called twice
        return {"plan": plan, "alt_inputs": alt}

    def run(self, case):
        plan = case["plan"]
        alt_in = list(case.get("alt_inputs", [])) + [i["v"] for i in plan["inputs"]][len(case.get("alt_inputs", [])):]
        tr = T.TraceRun(plan, props=("C01",))
        tr.alt_inputs = alt_in
        tr.run()
        n_out, n_vals, n_src = T.run_native(plan, alt=alt_in)
        if plan.get("in_function"):
            # compare call by call
            n_rets = list(T.run_native.last_rets)
            n_vals = {"call%d.%s" % (i, k): v for i, r in enumerate(n_rets) for k, v in r.items()}
            tr.tracked = {"call%d.%s" % (i, k): v for i, r in enumerate(tr.rets) for k, v in r.items()}
        viol = []
        probes = dict(tr.probes)
        if plan.get("in_function"):
            probes["program_in_function_called_twice"] = 1

        def add(oracle, site, detail):
            if not any(v["oracle"] == oracle and v["site"] == site for v in viol):
                viol.append({"property": "C09", "oracle": oracle, "site": site, "detail": detail})
        kinds = sorted({s["s"] for s in _all_stmts(plan["body"]) if s["s"].startswith("block_")})
        site0 = {"blocks": "+".join(k[6:] for k in kinds)}
        for v in tr.violations:
            if v["property"] == "C01":
                add("unsat_constraint", dict(site0, op=v["site"].get("op")), v["detail"])
        nt = None
        if tr.outcome == "completed" and n_out == "completed":
            if tr.open_blocks:
                add("block_left_open", site0, "%d block contexts still on the stack at the end" % tr.open_blocks)
            diff = {k: (tr.tracked.get(k), n_vals.get(k)) for k in set(tr.tracked) | set(n_vals)
                    if tr.tracked.get(k) != n_vals.get(k)}
            if diff:
                add("twin_value_differs", site0, "tracked variables (traced, native): %r" % diff)
            probes["twin_compared"] = 1
            nt = P.plan_digest(plan) if kinds else None
            # independence of the conditions
            alt = alt_in
            tr2 = T.TraceRun(plan, inputs=alt, props=())
            tr2.alt_inputs = [i["v"] for i in plan["inputs"]]
            tr2.run()
            if tr2.outcome == "completed":
                d = segment_diff(tr, tr2)
                if d is not None:
                    info = tr.gen.sites.get(d[0], {})
                    add("structure_differs", dict(site0, op=(info.get("desc") or {}).get("op")),
                        "site %d: %s" % d)
                probes["structure_compared"] = 1
        elif tr.outcome != "completed" and n_out == "completed":
            cls = tr.outcome.split(":")[1]
            if not valid_block_plan(plan):
                probes["invalid_plan_discarded"] = 1
            elif cls in ("ValueError", "AssertionError") and ("bit" in tr.outcome_msg or "is not" in tr.outcome_msg):
                probes["traced_out_of_domain_discarded"] = 1
            elif cls == "RuntimeError" and "unreachable code" in tr.outcome_msg:
                probes["public_false_condition_refused_discarded"] = 1
            else:
                add("traced_raised_native_did_not", dict(site0, exc=cls), "%s: %s" % (tr.outcome, tr.outcome_msg[:150]))
        elif tr.outcome == "completed" and n_out != "completed":
            add("native_raised_traced_did_not", dict(site0, exc=n_out.split(":")[1]), n_out)
        else:
            probes["both_raised"] = 1
            if tr.outcome != n_out:
                probes["both_raised_different_class"] = 1
        res = self.result(tr, case, [])
        res["violations"] = viol
        res["probes"] = probes
        res["nontrivial"] = nt
        res["digest"] = E.sha((res["digest"], sorted(n_vals.items()), n_out))
        res["faults"] = {"guard0": int(bool(tr.probes.get("step_under_false_block_guard"))),
                         "guard1": int(bool(tr.probes.get("step_in_block_region")))}
        if plan["body"] and plan["body"][0]["s"] == "retry_while":
            # runs of the loop that were abandoned by an exception the program caught
            res["faults"]["abandoned_run"] = len(tr.caught)
            probes["retry_while_history"] = 1
            if tr.outcome == "completed" and n_out == "completed":
                res["nontrivial"] = P.plan_digest(plan)
        res["sigs"] = [E.sha((s["s"], s.get("elifs") and len(s["elifs"]), s.get("else") is not None,
                              s.get("breakif") is not None, s.get("max"), s.get("checkstopmax"),
                              bool(tr.probes.get("step_under_false_block_guard"))))
                       for s in _all_stmts(plan["body"]) if s["s"].startswith("block_")]
        return res


def valid_block_plan(plan):
    """Every tracked variable used is initialised at top level before use; every loop variable is used
    inside its loop (shrinking must not produce programs that are wrong in themselves)."""
    inited = set()

    def names(e, lvs, out):
        if isinstance(e, dict):
            if "tv" in e:
                out.append(("tv", e["tv"]))
            if "lv" in e:
                out.append(("lv", e["lv"]))
            for v in e.values():
                names(v, lvs, out)
        elif isinstance(e, list):
            for v in e:
                names(v, lvs, out)
        return out

    def check(body, lvs, top, fresh=None):
        for s in body:
            k = s["s"]
            used = []
            for key in ("e", "cond", "stop", "breakif"):
                if key in s and s[key] is not None:
                    names(s[key], lvs, used)
            for c, b in s.get("elifs", []) or []:
                names(c, lvs, used)
            for kind, nm in used:
                if kind == "tv" and nm not in inited:
                    return False
                if kind == "lv" and nm not in lvs:
                    return False
            if k == "tracked_init":
                if not top:
                    return False
                inited.add(s["name"])
            elif k == "track":
                if s["name"] not in inited and s["name"] != fresh:
                    return False
            elif k == "block_if":
                fr = s.get("fresh")
                if fr is not None and (not top or s.get("else") is None):
                    return False
                for b in [s["then"]] + [b for _, b in s.get("elifs", [])] + ([s["else"]] if s.get("else") is not None else []):
                    if fr is not None and not any(x["s"] == "track" and x["name"] == fr for x in b):
                        return False
                    if not check(b, lvs, False, fr):
                        return False
                if fr is not None:
                    inited.add(fr)
            elif k == "block_while":
                if not check(s["body"], lvs, False):
                    return False
            elif k == "block_for":
                if not check(s["body"], lvs | {s["lv"]}, False):
                    return False
        return True
    return check(plan["body"], set(), True)


def _all_stmts(body):
    for s in body:
        yield s
        for k in ("body", "then", "else", "true", "false"):
            if isinstance(s.get(k), list):
                yield from _all_stmts(s[k])
        for c, b in s.get("elifs", []) or []:
            yield from _all_stmts(b)


def _c09_shrink(self, case):
    for c in P.shrink_plan_candidates(case):
        if valid_block_plan(c["plan"]):
            yield c


C09.shrink_candidates = _c09_shrink
E.register(C09())


# ---------------------------------------------------------------------------------------
class C15(ProverCheck):
    name = "C15"
    prop = "C15"
    budget = {"quick": 1500, "thorough": 60000}
    components = REAL_TRACE
    rule = ("read/write histories (<= 8 operations) on 1-D (<= 5), 2-D (<= 4x3) and 3-D (<= 3x3x2) arrays of "
            "constants and secrets with public and secret indices inside and outside the bounds, tuple (2 and 3 "
            "entries) and chained indexing, whole-row copies; "
            "reference model = Python lists executed from the same generated source (strict bounds for secret "
            "indices); after every operation all arrays and read results must equal the model's; same "
            "exception class at the same statement (IndexError for an out-of-range secret index, TypeError for "
            "assignment through a row view); a twin run on other in-range index values must emit the identical "
            "constraint system; with the Python check removed an out-of-range secret index must be unsatisfiable "
            "even for a lying prover; lies on hint wires cannot move a value read. non-trivial = distinct "
            "histories containing at least one secret-index access that was compared")

    def cfg(self, rng):
        return {"backend": rng.choice(W.DICT_BACKENDS), "bitlength": rng.choice([4, 6, 8]), "resolution": 2,
                "value_bias": "tiny", "max_nesting": 0, "p_try": 1.0, "fxp": False}

    def gen(self, rng, i, tier):
        cfg = self.cfg(rng)
        two_d = rng.random() < 0.4
        three_d = two_d and rng.random() < 0.3
        n = rng.randrange(1, 6) if not two_d else rng.randrange(1, 5)
        m = rng.randrange(1, 4)
        q = rng.randrange(1, 3)
        if three_d:
            n = min(n, 3)
        # inputs: index inputs first (secret), then some element values
        n_ix = rng.randrange(1, 4)
        oob = rng.random() < 0.25
        inputs, alt = [], []

        P_ = W.PRIMES[cfg["backend"]]

        congruent = []

        def ixval(lim):
            if oob and rng.random() < 0.4:
                # (the last three are far outside the array as integers but congruent to a position modulo the field:
                # only the run-time check can refuse them)
                v = rng.choice([lim, lim + 1, -1, -2, lim + 5, P_ + (lim - 1), P_, (lim - 1) - P_])
                if abs(v) > 1000:
                    congruent.append(v)
                return v
            return rng.randrange(0, lim)
        dims = [n, m, q] if three_d else [n, m] if two_d else [n]
        ix_dim = []
        for j in range(n_ix):
            d = rng.randrange(len(dims))
            ix_dim.append(d)
            inputs.append({"kind": "priv", "t": "I", "v": ixval(dims[d])})
            alt.append(rng.randrange(0, dims[d]))
        n_el = rng.randrange(1, 4)
        for j in range(n_el):
            v = rng.choice([0, 1, 2, 3, 5, -1, 7])
            inputs.append({"kind": rng.choice(["priv", "pub"]), "t": "I", "v": v})
            alt.append(v)

        flags_in_array = rng.random() < 0.15
        if flags_in_array:
            inputs.append({"kind": "priv", "t": "B", "v": rng.randrange(2)})     # a record: flags next to numbers
            alt.append(inputs[-1]["v"])

        def elem():
            if flags_in_array and rng.random() < 0.35:
                return {"ref": 0, "t": "B"}
            if rng.random() < 0.5:
                return {"ref": n_ix + rng.randrange(n_el), "t": "I"}
            return {"k": rng.choice([0, 1, 2, 3, 4, 9, -3])}

        def index(d):
            cands = [j for j in range(n_ix) if ix_dim[j] == d]
            if cands and rng.random() < 0.7:
                return {"ref": rng.choice(cands), "t": "I"}
            return {"k": rng.randrange(0, dims[d])}
        if three_d:
            body = [{"s": "array", "nest": [[[elem() for _ in range(q)] for _ in range(m)] for _ in range(n)]}]
        elif two_d and rng.random() < 0.2:
            body = [{"s": "array", "template": [elem() for _ in range(m)], "n": n, "rows": None}]
        elif two_d:
            body = [{"s": "array", "rows": [[elem() for _ in range(m)] for _ in range(n)]}]
        else:
            body = [{"s": "array", "els": [elem() for _ in range(n)]}]
        narr = 1
        if rng.random() < 0.35 and n >= 2:
            # a second, shorter array indexed by the same (secret) index objects
            n2 = n - rng.randrange(1, min(3, n))
            if three_d:
                body.append({"s": "array", "nest": [[[elem() for _ in range(q)] for _ in range(m)] for _ in range(n2)]})
            elif two_d:
                body.append({"s": "array", "rows": [[elem() for _ in range(m)] for _ in range(n2)]})
            else:
                body.append({"s": "array", "els": [elem() for _ in range(n2)]})
            narr = 2
        for _ in range(rng.randrange(1, 9)):
            ix = [index(d) for d in range(len(dims))]
            if narr == 1 and rng.random() < 0.12:
                # an array derived by scalar arithmetic (k = 0 / 1 are the neutral elements): a new object
                body.append({"s": "aderive", "arr": 0, "how": rng.choice(["add", "radd", "mul", "rmul"]),
                             "k": rng.choice([0, 1, 2, -1])})
                narr = 2
                continue
            arr = rng.randrange(narr) if narr == 2 else 0
            chained = two_d and rng.random() < 0.25
            if three_d and rng.random() < 0.15:
                # a partial index tuple: replaces a whole innermost row by the one read at another position
                body.append({"s": "aset", "arr": 0, "ix": [index(0), index(1)], "row_from": [index(0), index(1)],
                             "value": {"k": 0}, "try": True})
                continue
            if two_d and not three_d and rng.random() < 0.2:
                # store the row read at a (usually secret) index at another position
                body.append({"s": "aset", "arr": 0, "ix": [index(0)], "row_from": index(0), "value": {"k": 0}, "try": True})
                continue
            if rng.random() < 0.5:
                body.append({"s": "let", "e": {"call": "aget", "arr": arr, "ix": ix, "chained": chained, "t": "I"},
                             "try": True})
            else:
                body.append({"s": "aset", "arr": arr, "ix": ix, "chained": chained, "value": elem(), "try": True})
        plan = {"cfg": cfg, "inputs": inputs, "body": body}
        return {"plan": plan, "alt_inputs": alt, "n_ix": n_ix, "seed": rng.randrange(1 << 30),
                "congruent_index": bool(congruent)}

    def run(self, case):
        plan = case["plan"]
        rng = _random.Random(case["seed"])
        tr = T.TraceRun(plan, props=("C01",))
        tr.want_snapshots = True
        tr.run()
        snaps = []
        n_out, _, n_src = T.run_native(plan, snapshots=snaps)
        n_caught = list(T.run_native.last_caught)
        viol, probes, faults = [], {}, {}

        def add(oracle, site, detail):
            if not any(v["oracle"] == oracle and v["site"] == site for v in viol):
                viol.append({"property": "C15", "oracle": oracle, "site": site, "detail": detail})
        for v in tr.violations:
            if v["property"] == "C01":
                add("unsat_constraint", {"op": v["site"].get("op")}, v["detail"])
        secret_access = any(isinstance(s.get("ix") or (s.get("e") or {}).get("ix"), list) and
                            any("ref" in i for i in (s.get("ix") or s["e"]["ix"])) for s in plan["body"]
                            if s.get("s") not in ("array", "aderive"))
        t_caught = [(s, c) for (s, c, _) in tr.caught]
        if tr.outcome != "completed" or n_out != "completed":
            raise W.HarnessError("array history did not complete: %s / %s %s" % (tr.outcome, n_out, tr.outcome_msg))
        # statement-by-statement comparison
        ok = True
        for (k1, s1), (k2, s2) in zip(tr.snapshots, snaps):
            if s1 != s2:
                info = tr.gen.sites.get(k1, {})
                d = dict(info.get("desc") or {"op": info.get("kind")})
                diff = {nm: (s1.get(nm), s2.get(nm)) for nm in set(s1) | set(s2) if s1.get(nm) != s2.get(nm)}
                add("twin_value_differs", {"op": d.get("op")}, "after site %d (traced, list model): %r" % (k1, diff))
                ok = False
                break
        if t_caught != n_caught:
            k = next((i for i, (a, b) in enumerate(zip(t_caught, n_caught)) if a != b), min(len(t_caught), len(n_caught)))
            a = t_caught[k] if k < len(t_caught) else None
            b = n_caught[k] if k < len(n_caught) else None
            site = (a or b)[0]
            d = tr.gen.sites.get(site, {}).get("desc") or {}
            add("twin_error_differs", {"op": d.get("op"), "traced": a and a[1], "model": b and b[1]},
                "traced caught %r, list model caught %r" % (a, b))
            ok = False
        nt = P.plan_digest(plan) if secret_access else None
        if tr.caught:
            probes["history_with_rejected_access"] = 1
        if ok and not tr.caught:
            # twin on other in-range index values: identical constraint system
            alt = list(case["alt_inputs"])
            tr2 = T.TraceRun(plan, inputs=alt, props=()).run()
            if tr2.outcome == "completed" and not tr2.caught:
                d = segment_diff(tr, tr2)
                if d is not None:
                    info = tr.gen.sites.get(d[0], {})
                    add("structure_differs", {"op": (info.get("desc") or {}).get("op")}, "site %d: %s" % d)
                probes["index_twin_compared"] = 1
            # lying prover on the values read
            trace = PV.Trace(tr)
            if not trace.unsat(trace.base_assignment()) and trace.hints and len(trace.cons) < 400:
                atk = PV.Attack(trace, PV.plan_consts(plan))
                for lies, v, a, rep in atk.search(rng, plan["cfg"]["bitlength"], 500, pairs=True):
                    s = {"op": v[1]["desc"].get("op"), "lie_scale": atk.lie_scale(a, plan["cfg"]["bitlength"])}
                    add("second_assignment", s, "lies %r move %s" % (lies, v[1]["name"]))
                    break
                faults["lie-wire"] = atk.evals
        elif tr.caught and any(c == "IndexError" for (_, c) in t_caught) and case.get("congruent_index"):
            probes["index_congruent_to_a_position_refused_at_run_time"] = 1
        elif tr.caught and any(c == "IndexError" for (_, c) in t_caught):
            # out-of-range secret index: must also be unprovable with the Python check removed
            d = PV.run_plan(plan, nocheck=True)
            if d.outcome == "completed" and not d.caught:
                t = PV.Trace(d)
                atk = PV.Attack(t, PV.plan_consts(plan))
                faults["nocheck"] = 1
                if not t.unsat(atk.base):
                    add("out_of_range_index_provable", {"mode": "honest-hints"},
                        "out-of-range secret index: hints computed with checks off satisfy all constraints")
                else:
                    found = PV.search_sat(atk, rng, plan["cfg"]["bitlength"], budget=200)
                    faults["lie-wire"] = atk.evals + atk.repairs
                    if found is not None:
                        add("out_of_range_index_provable", {"mode": "wire"}, "lies %r satisfy the circuit" % (found[0],))
            else:
                probes["nocheck_run_raised"] = 1
        res = self.result(tr, case, [])
        res["violations"] = viol
        res["nontrivial"] = nt
        res["faults"] = faults
        res["probes"] = probes
        res["digest"] = E.sha((res["digest"], snaps[-1] if snaps else None, n_caught))
        res["sigs"] = [E.sha((s["s"], len(s.get("ix") or s.get("e", {}).get("ix") or []),
                              [("ref" in i) for i in (s.get("ix") or s.get("e", {}).get("ix") or [])],
                              bool(s.get("chained") or s.get("e", {}).get("chained")),
                              len(plan["body"][0].get("rows") or plan["body"][0].get("nest") or []),
                              bool(plan["body"][0].get("nest")),
                              len(plan["body"][0].get("els") or []), bool(tr.caught))) for s in plan["body"][1:]
                       if s.get("s") not in ("array", "aderive")]
        return res

    def shrink_candidates(self, case):
        for c in P.shrink_plan_candidates(case):
            if c["plan"]["body"] and c["plan"]["body"][0].get("s") == "array" and \
                    len(c["plan"]["inputs"]) == len(case["plan"]["inputs"]) and \
                    sum(1 for s in c["plan"]["body"] if s.get("s") in ("array", "aderive")) == \
                    sum(1 for s in case["plan"]["body"] if s.get("s") in ("array", "aderive")):
                yield c


E.register(C15())


# ---------------------------------------------------------------------------------------
class C17(TraceCheck):
    name = "C17"
    prop = "C17"
    props = ("C01",)
    budget = {"quick": 1500, "thorough": 60000}
    rule = ("1-4 @snark-wrapped calls per run; argument structures of depth <= 3 and <= 8 leaves built from "
            "lists, tuples and dicts over int, bool, float and pass-through secret leaves; results are "
            "structures over secret integer / boolean / fixed-point expressions of the leaves, pass-through "
            "leaves and plain constants; some calls pass a keyword argument. oracle on the recorder's ordered "
            "log of public allocations during each call: exactly the numeric argument leaves in traversal "
            "order (ints as is, bools as 0/1, floats scaled), then exactly the secret result leaves in "
            "traversal order; the returned plain structure equals the undecorated function run on plain "
            "values (native twin); kwargs => ValueError; fault injection on the assignment: changing one "
            "output's public value alone must violate some constraint; a third of the calls sit inside a region "
            "guarded by a secret condition - under a true guard everything above applies, under a false guard "
            "the arguments are published exactly, one public output per secret result, and the returned leaves "
            "equal those outputs; in a fifth of the histories with two or more calls an earlier call is abandoned by "
            "an exception of the wrapped function itself (caught), the calls after it are judged as usual. "
            "non-trivial = distinct (argument structure, result structure) pairs whose call completed")

    def cfg(self, rng):
        return {"backend": rng.choice(W.DICT_BACKENDS), "bitlength": rng.choice([8, 16]),
                "resolution": rng.choice([2, 4, 8]), "p_try": 1.0, "fxp": True}

    def gen_struct(self, rng, depth, leaves, budget):
        u = rng.random()
        if depth <= 0 or u < 0.45 or budget[0] <= 1:
            budget[0] -= 1
            k = rng.random()
            if k < 0.4:
                leaf = {"k": rng.choice([0, 1, 2, 3, 5, -2, 7]), "lt": "I"}
            elif k < 0.6:
                leaf = {"k": rng.random() < 0.5, "lt": "B"}
            elif k < 0.72:
                leaf = {"k": rng.choice([0.5, 1.5, -2.25, 3.0, 0.0, 4.75]), "lt": "F"}
            elif k < 0.76:
                # a text argument (a label, an option): never a public input, however number-like it reads
                leaf = {"k": rng.choice(["12", "0x10", "1e3", " 7 ", "label", "007", "1_000", "", "True", "bytes:0102",
                                         "bytearray:6162", "bytes:"]), "lt": "T"}
            elif k < 0.8:
                leaf = {"enum": rng.choice(["A", "B", "C"]), "lt": "I", "k": {"A": 3, "B": 7, "C": 0}[None] if False else None}
                leaf["k"] = {"A": 3, "B": 7, "C": 0}[leaf["enum"]]
            else:
                leaf = {"ref": rng.randrange(0, 8), "t": "I", "lt": "S"}
            leaves.append(leaf)
            return leaf
        kind = rng.choice(["list", "tuple", "dict"])
        n = rng.randrange(1, 4)
        if kind == "dict":
            return {"struct": "dict", "items": [[rng.choice("abcdxyz") + str(j), self.gen_struct(rng, depth - 1, leaves, budget)]
                                                for j in range(n)]}
        return {"struct": kind, "items": [self.gen_struct(rng, depth - 1, leaves, budget) for _ in range(n)]}

    def gen_ret_leaf(self, rng, leaves):
        by = {"I": [], "B": [], "F": []}
        for i, l in enumerate(leaves):
            if l["lt"] != "T":
                by["I" if l["lt"] in ("I", "S") else l["lt"]].append(i)
        u = rng.random()
        if u < 0.12 or not (by["I"] or by["B"] or by["F"]):
            return {"k": rng.choice([0, 1, 42])}
        if by["I"] and u < 0.55:
            a = {"leaf": rng.choice(by["I"])}
            k = rng.random()
            if k < 0.3:
                return a
            if k < 0.6:
                return {"op": rng.choice(["+", "-"]), "a": a, "b": {"leaf": rng.choice(by["I"])}}
            if k < 0.8:
                return {"op": "*", "a": a, "b": {"k": rng.choice([2, 3, -1])}}
            return {"op": rng.choice(["<", "==", ">="]), "a": a, "b": {"leaf": rng.choice(by["I"])}}
        if by["F"] and u < 0.8:
            a = {"leaf": rng.choice(by["F"])}
            if rng.random() < 0.4:
                return a
            return {"op": rng.choice(["+", "-"]), "a": a, "b": {"leaf": rng.choice(by["F"])}}
        if by["B"]:
            a = {"leaf": rng.choice(by["B"])}
            if rng.random() < 0.5:
                return a
            return {"op": rng.choice(["&", "|", "^"]), "a": a, "b": {"leaf": rng.choice(by["B"])}}
        return {"leaf": rng.choice(by["I"] + by["B"] + by["F"])}

    def gen_ret(self, rng, depth, leaves, budget):
        if depth <= 0 or rng.random() < 0.5 or budget[0] <= 1:
            budget[0] -= 1
            return self.gen_ret_leaf(rng, leaves)
        kind = rng.choice(["list", "tuple", "dict"])
        n = rng.randrange(1, 4)
        if kind == "dict":
            return {"struct": "dict", "items": [["r%d" % j, self.gen_ret(rng, depth - 1, leaves, budget)] for j in range(n)]}
        return {"struct": kind, "items": [self.gen_ret(rng, depth - 1, leaves, budget) for _ in range(n)]}

    def gen(self, rng, i, tier):
        cfg = self.cfg(rng)
        inputs = [{"kind": "priv", "t": "I", "v": rng.choice([0, 1, 2, 3, 4, 6])} for _ in range(rng.randrange(1, 3))]
        n_conds = rng.choice([0, 0, 1, 2])
        inputs += [{"kind": "priv", "t": "B", "v": rng.choice([0, 1])} for _ in range(n_conds)]
        body = []
        shared = []
        if rng.random() < 0.4:
            # argument objects that are reused: passed to several calls, twice to one call, aliased rows
            for j in range(rng.randrange(1, 3)):
                lv = []
                item = self.gen_struct(rng, rng.choice([0, 1]), lv, [4])
                if rng.random() < 0.4:
                    val = {"struct": "alias_list", "item": {"struct": "list", "items": [item]}, "n": 2}
                    lv = lv + lv
                else:
                    val = {"struct": "list", "items": [item, self.gen_struct(rng, 0, lv, [2])]}
                shared.append(("_a%d" % j, val, lv))
                body.append({"s": "snark_args", "name": "_a%d" % j, "value": val})
        for _ in range(rng.randrange(1, 5)):
            leaves = []
            budget = [8]
            args = [self.gen_struct(rng, rng.choice([0, 1, 2, 3]), leaves, budget) for _ in range(rng.randrange(0, 4))]
            for nm, val, lv in shared:
                for _rep in range(rng.choice([0, 1, 1, 2])):
                    if len(leaves) + len(lv) <= 12:
                        pos = rng.randrange(0, len(args) + 1)
                        # leaves are numbered in traversal order: rebuild the numbering afterwards
                        args.insert(pos, {"argvar": nm})
            if shared:
                leaves = []
                for a in args:
                    _collect_leaves(a, leaves, {nm: val for nm, val, lv in shared})
            ret = self.gen_ret(rng, rng.choice([0, 1, 2]), leaves, [6])
            st = {"s": "snark_call", "args": args, "ret": ret, "try": True}
            if rng.random() < 0.3:
                st["log"] = True          # the body formats its arguments (repr / str of every leaf)
            if rng.random() < 0.08:
                st["kwargs"] = True
            if n_conds and rng.random() < 0.35:
                # the wrapped call happens inside a region guarded by a secret condition (either value)
                st = {"s": "guarded", "cond": {"ref": rng.randrange(n_conds), "t": "B"}, "body": [st]}
            body.append(st)
            if rng.random() < 0.3:
                body.append({"s": "let", "e": {"op": "*", "a": {"ref": 0, "t": "I"}, "b": {"ref": 1, "t": "I"}, "t": "I"}})
        plan = {"cfg": cfg, "inputs": inputs, "body": body}
        r2 = _random.Random("snark-raises/%s" % P.plan_digest(plan))
        calls = [st2 for st in body for st2 in ([st] + st.get("body", [])) if st2["s"] == "snark_call"
                 and not st2.get("kwargs")]
        if len(calls) >= 2 and r2.random() < 0.2:
            # history: one of the earlier calls is abandoned by an exception of the wrapped function itself (caught by
            # the program); the calls after it are ordinary
            calls[r2.randrange(0, len(calls) - 1)]["raises"] = True
        return {"plan": plan}

    def run(self, case):
        plan = case["plan"]
        tr = T.TraceRun(plan, props=("C01",)).run()
        n_out, _, _ = T.run_native(plan)
        n_calls = dict(T.run_native.last_calls)
        n_caught = list(T.run_native.last_caught)
        if tr.outcome != "completed" or n_out != "completed":
            raise W.HarnessError("snark history did not complete: %s %s / %s" % (tr.outcome, tr.outcome_msg, n_out))
        rec = tr.w.rec
        res_scale = 1 << plan["cfg"]["resolution"]
        viol, probes = [], {}

        def add(oracle, site, detail):
            if not any(v["oracle"] == oracle and v["site"] == site for v in viol):
                viol.append({"property": "C17", "oracle": oracle, "site": site, "detail": detail})
        for v in tr.violations:
            if v["property"] == "C01":
                add("unsat_constraint", {"op": v["site"].get("op")}, v["detail"])
        _ARGVARS.clear()
        for s_ in plan["body"]:
            if s_["s"] == "snark_args":
                _ARGVARS[s_["name"]] = s_["value"]
        nts = []
        # ids are assigned in order of appearance (one per region, one per call)
        rid = 0
        seq = []
        for st in plan["body"]:
            if st["s"] == "guarded":
                rid += 1
                region = rid
                for st2 in st["body"]:
                    if st2["s"] == "snark_call":
                        rid += 1
                        seq.append((st2, rid, region))
            elif st["s"] == "snark_call":
                rid += 1
                seq.append((st, rid, None))
        for st, rid, region in seq:
            c = tr.calls.get(rid)
            leaves = T.flat_leaves([_struct_to_py(a) for a in st["args"]])
            types = sorted({l["lt"] for l in leaves})
            site0 = {"arg_types": "+".join(types), "kwargs": bool(st.get("kwargs"))}
            dead = region is not None and bool(tr.region_dead.get((region, "t")))
            if region is not None:
                site0["guard"] = 0 if dead else 1
                probes["call_under_false_guard" if dead else "call_under_true_guard"] = \
                    probes.get("call_under_false_guard" if dead else "call_under_true_guard", 0) + 1
            if st.get("kwargs"):
                probes["kwargs_call"] = probes.get("kwargs_call", 0) + 1
                if c is not None and "ret" in c:
                    add("kwargs_accepted", site0, "a keyword argument was accepted by the wrapped function")
                elif "ValueError" not in [cls for (_, cls, _) in tr.caught]:
                    add("kwargs_accepted", site0, "keyword argument: expected ValueError, caught %r" % (tr.caught,))
                elif c is not None and c["mark0"] < len(tr.marks):
                    left = tr.marks[c["mark0"]][1] - c["ev0"]
                    if left:
                        kinds = [e[0] for e in rec.events[c["ev0"]:c["ev0"] + left]]
                        add("refused_call_left_trace", site0, "the refused call allocated %r before raising" % (kinds[:6],))
                continue
            if st.get("raises"):
                probes["call_abandoned_by_function"] = probes.get("call_abandoned_by_function", 0) + 1
                if c is not None and "ret" in c:
                    add("exception_swallowed", site0, "the wrapped function raised KeyError but the call returned %r" % (c["ret"],))
                continue
            if c is None or "ret" not in c:
                add("call_failed", site0, "wrapped call raised: %r" % (tr.caught[:2],))
                continue
            evs = rec.events[c["ev0"]:c["ev1"]]
            pubs = [e[1] for e in evs if e[0] == "pub"]
            exp_args = []
            for l in leaves:
                if l["lt"] == "I":
                    exp_args.append(l["k"])
                elif l["lt"] == "B":
                    exp_args.append(int(l["k"]))
                elif l["lt"] == "F":
                    exp_args.append(int(l["k"] * res_scale))
            if dead:
                # a call in a branch that is not taken: the values there are arbitrary, but the call still publishes
                # exactly its arguments and then one output per secret result, and hands back those outputs
                got = [int(v) for v in pubs]
                n_out_exp = sum(1 for le in T.flat_leaves(_struct_to_py(st["ret"])) if _uses_leaf(le))
                ret_leaves = T.flat_leaves(_unplain(c["ret"])) if c["ret"] is not None else None
                ret_exprs = T.flat_leaves(_struct_to_py(st["ret"]))
                if got[:len(exp_args)] != exp_args:
                    add("public_order", dict(site0, part="arguments"),
                        "public wires allocated for the arguments: %r, arguments in order: %r" % (got[:len(exp_args)], exp_args))
                elif len(got) - len(exp_args) != n_out_exp:
                    add("public_order", dict(site0, part="results"),
                        "under a false guard the call allocated %d public outputs for %d secret results"
                        % (len(got) - len(exp_args), n_out_exp))
                elif ret_leaves is None or len(ret_leaves) != len(ret_exprs):
                    add("return_shape", site0, "under a false guard the call returned %r" % (c["ret"],))
                else:
                    outs = got[len(exp_args):]
                    j = 0
                    for le, rv in zip(ret_exprs, ret_leaves):
                        if not _uses_leaf(le):
                            continue
                        pv = outs[j]
                        j += 1
                        if isinstance(rv, bool) or not isinstance(rv, (int, float)):
                            add("return_shape", site0, "under a false guard the call returned %r" % (c["ret"],))
                            break
                        r_int = int(round(rv * res_scale)) if isinstance(rv, float) else int(rv)
                        if (r_int - pv) % rec.p != 0:
                            add("return_ne_public_output", site0,
                                "returned %r, the public output holds %r" % (rv, pv))
                            break
                nts.append(E.sha((st["args"], st["ret"], "dead")))
                continue
            nat = n_calls.get(rid)
            if c["ret"] != nat:
                add("return_ne_native", site0, "wrapped call returned %r, undecorated function gives %r" % (c["ret"], nat))
            # secret result leaves in traversal order: those whose expression involves a leaf
            exp_out = []
            for leaf_expr, natv in zip(T.flat_leaves(_struct_to_py(st["ret"])), T.flat_leaves(_unplain(nat)) if nat is not None else []):
                if _uses_leaf(leaf_expr):
                    if isinstance(natv, float):
                        exp_out.append(int(natv * res_scale))
                    else:
                        exp_out.append(int(natv))
            got = [int(v) for v in pubs]
            if got[:len(exp_args)] != exp_args:
                add("public_order", dict(site0, part="arguments"),
                    "public wires allocated for the arguments: %r, arguments in order: %r" % (got[:len(exp_args)], exp_args))
            elif c["ret"] == nat and got[len(exp_args):] != exp_out:
                add("public_order", dict(site0, part="results"),
                    "public wires allocated for the results: %r, secret results in order: %r" % (got[len(exp_args):], exp_out))
            elif c["ret"] == nat:
                # a boolean argument is a declared boolean: its public wire must be forced to 0/1
                npub_before = sum(1 for e in rec.events[:c["ev0"]] if e[0] == "pub")
                pos = 0
                for l in leaves:
                    if l["lt"] in ("S", "T"):
                        continue
                    if l["lt"] == "B":
                        saved = rec.pub[npub_before + pos]
                        rec.pub[npub_before + pos] = 2
                        if not rec.unsat():
                            add("boolean_argument_not_constrained", site0,
                                "boolean argument %d can be given the public value 2 without violating any constraint" % pos)
                        rec.pub[npub_before + pos] = saved
                        probes["bool_args_tampered"] = probes.get("bool_args_tampered", 0) + 1
                    pos += 1
                # tamper with each output's public value
                npub_before = sum(1 for e in rec.events[:c["ev0"]] if e[0] == "pub")
                base = len(exp_args) + npub_before
                for j in range(len(exp_out)):
                    saved = rec.pub[base + j]
                    rec.pub[base + j] = saved + 1
                    if not rec.unsat():
                        add("output_not_tied", site0, "public output %d of the call can be changed without violating "
                            "any constraint" % j)
                    rec.pub[base + j] = saved
                probes["outputs_tampered"] = probes.get("outputs_tampered", 0) + len(exp_out)
            nts.append(E.sha((st["args"], st["ret"])))
        res = self.result(tr, case, [])
        res["violations"] = viol
        res["probes"] = probes
        res["nontrivial"] = None
        res["nontrivial_list"] = nts
        res["faults"] = {"tamper_public_output": probes.get("outputs_tampered", 0)}

        def shape(v):
            if isinstance(v, dict) and v.get("struct"):
                items = v["items"] if v["struct"] != "alias_list" else [v["item"]]
                return [v["struct"]] + [shape(x[1] if v["struct"] == "dict" else x) for x in items]
            if isinstance(v, dict) and "argvar" in v:
                return "shared"
            return v.get("lt", "e") if isinstance(v, dict) else "?"
        res["sigs"] = [E.sha((shape({"struct": "list", "items": st["args"]}), shape(st["ret"])))
                       for st in plan["body"] if st["s"] == "snark_call"]
        return res

    def shrink_candidates(self, case):
        plan = case["plan"]
        for i in reversed(range(len(plan["body"]))):
            c = copy.deepcopy(case)
            del c["plan"]["body"][i]
            yield c
        for i, st in enumerate(plan["body"]):
            if st["s"] != "snark_call":
                continue
            for j in range(len(st["args"])):
                # dropping an argument is only valid if no result leaf index breaks: keep simple - replace
                # the result by a constant first
                pass
            c = copy.deepcopy(case)
            c["plan"]["body"][i]["ret"] = {"k": 0}
            yield c
            if isinstance(st["ret"], dict) and st["ret"].get("struct"):
                for it in st["ret"]["items"]:
                    c = copy.deepcopy(case)
                    c["plan"]["body"][i]["ret"] = it[1] if st["ret"]["struct"] == "dict" else it
                    yield c


_ARGVARS = {}


def _struct_to_py(v):
    if isinstance(v, dict) and "argvar" in v:
        return _struct_to_py(_ARGVARS[v["argvar"]])
    if isinstance(v, dict) and v.get("struct") == "alias_list":
        return [_struct_to_py(v["item"]) for _ in range(v["n"])]
    if isinstance(v, dict) and v.get("struct") in ("list", "tuple"):
        return [_struct_to_py(x) for x in v["items"]]
    if isinstance(v, dict) and v.get("struct") == "dict":
        return {k: _struct_to_py(x) for k, x in v["items"]}
    return _Leaf(v)


def _collect_leaves(v, out, argvars):
    if isinstance(v, dict) and "argvar" in v:
        _collect_leaves(argvars[v["argvar"]], out, argvars)
    elif isinstance(v, dict) and v.get("struct") == "alias_list":
        for _ in range(v["n"]):
            _collect_leaves(v["item"], out, argvars)
    elif isinstance(v, dict) and v.get("struct") in ("list", "tuple"):
        for x in v["items"]:
            _collect_leaves(x, out, argvars)
    elif isinstance(v, dict) and v.get("struct") == "dict":
        for k, x in v["items"]:
            _collect_leaves(x, out, argvars)
    else:
        out.append(v)


class _Leaf:
    """A leaf of an argument / result structure (not a dict, so that flat_leaves stops here)."""

    def __init__(self, d):
        self.d = d

    def __getitem__(self, k):
        return self.d[k]

    def __contains__(self, k):
        return k in self.d

    def get(self, k, default=None):
        return self.d.get(k, default)


def _unplain(x):
    if isinstance(x, list) and x and x[0] in ("list", "tuple"):
        return [_unplain(y) for y in x[1:]]
    if isinstance(x, list) and x and x[0] == "dict":
        return {k: _unplain(v) for k, v in x[1:]}
    return x


def _uses_leaf(e):
    if "leaf" in e:
        return True
    if "op" in e:
        return _uses_leaf(e["a"]) or _uses_leaf(e["b"])
    return False


E.register(C17())


# ---------------------------------------------------------------------------------------
def is_probable_prime(n, rounds=24):
    if n < 2:
        return False
    for q in (2, 3, 5, 7, 11, 13, 17, 19, 23, 29, 31, 37):
        if n % q == 0:
            return n == q
    d, r = n - 1, 0
    while d % 2 == 0:
        d //= 2
        r += 1
    rng = _random.Random(n & 0xffffffff)
    for _ in range(rounds):
        a = rng.randrange(2, n - 1)
        x = pow(a, d, n)
        if x in (1, n - 1):
            continue
        for _ in range(r - 1):
            x = x * x % n
            if x == n - 1:
                break
        else:
            return False
    return True


def import_backend_module(name):
    """Fresh import of one backend module (not through the runtime) in a private scratch cwd."""
    W.ensure_paths(name.startswith("zk"))
    W.purge_pysnark()
    os.environ["PYSNARK_BACKEND"] = name
    os.environ["QAPTOOLS_BIN"] = os.path.join(W.STUBS, "qaptools-bin")
    import atexit
    import importlib
    real = atexit.register
    saved = (sys.exit, sys.excepthook)
    atexit.register = lambda f, *a, **k: f
    try:
        return importlib.import_module(W.BACKEND_MODULES[name])
    finally:
        atexit.register = real
        sys.exit, sys.excepthook = saved


import sys


class C13(TraceCheck):
    name = "C13"
    prop = "C13"
    props = ()
    budget = {"quick": 2500, "thorough": 100000}
    BACKENDS = ("snarkjs", "zkinterface", "zkifbellman", "zkifbulletproofs", "qaptools")
    components = ("real: the LinearCombination / Sig classes, privval/pubval/one/zero, get_modulus and fieldinverse "
                  "of pysnark/snarkjsbackend.py, pysnark/zkinterface/backend*.py, pysnark/qaptools/backend.py and "
                  "the pure-Python pysnark/gmpy.py, imported fresh per run; stubs: `flatbuffers` (import only), "
                  "qapgen executable (import-time existence test only); not covered: gmpy2's invert (package "
                  "absent), libsnark's C++ linear combinations")
    rule = ("operation histories over a shared pool of linear combinations driven directly against each backend's "
            "own class: the pool starts with variables, the constant one, zero; each step applies + - neg or "
            "x scalar (scalars 0, 1, -1, small, negative, p-1, p, p+1, 2^256+k) to pool members (including a "
            "member with itself) and adds the result; after every step EVERY pool member is compared with a "
            "coefficient-vector model (so an operation that alters an operand, or an alias that later changes, is "
            "seen) and evaluated on a seeded assignment; once per run the reported modulus must equal the "
            "hard-coded scalar-field order for the backend name and pass Miller-Rabin, and fieldinverse(x)*x == 1 "
            "for seeded non-zero x including negative and unreduced ones. non-trivial = distinct (backend, "
            "history) with at least 3 operations")

    def gen(self, rng, i, tier):
        backend = self.BACKENDS[i % len(self.BACKENDS)]
        p = W.PRIMES[backend]
        nvars = rng.randrange(1, 5)
        ops = []
        for _ in range(rng.randrange(3, 25)):
            k = rng.choice(["add", "add", "sub", "neg", "mul", "mul", "one", "zero", "iadd", "isub", "imul"])
            a = rng.randrange(0, 64)
            b = a if rng.random() < 0.15 else rng.randrange(0, 64)
            sc = rng.choice([0, 1, -1, 2, 3, -7, 12345, p - 1, p, p + 1, -p, (1 << 256) + 5, rng.randrange(p)])
            ops.append([k, a, b, sc])
        vals = [rng.choice([0, 1, -1, 5, p - 1, rng.randrange(p)]) for _ in range(nvars)]
        xs = [rng.choice([1, 2, -1, -2, p - 1, p + 1, 2 * p + 3, -p + 1, rng.randrange(1, p), -rng.randrange(1, p),
                          (1 << 300) + 7]) for _ in range(6)]
        return {"backend": backend, "vals": vals, "kinds": [rng.choice(["priv", "pub"]) for _ in vals],
                "ops": ops, "inv": xs, "warm_base": rng.random() < 0.5}

    def run(self, case):
        name = case["backend"]
        p = W.PRIMES[name]
        d = tempfile.mkdtemp(prefix="c13-")
        old = os.getcwd()
        os.chdir(d)
        viol = []

        def add(oracle, site, detail):
            s = dict(site, backend=name)
            if not any(v["oracle"] == oracle and v["site"] == s for v in viol):
                viol.append({"property": "C13", "oracle": oracle, "site": s, "detail": detail})
        try:
            if case.get("warm_base") and name in ("zkifbellman", "zkifbulletproofs"):
                # import-order history: the base module is imported and used first, then the derived module
                # switches the field
                b0 = import_backend_module("zkinterface")
                for x in case["inv"]:
                    try:
                        b0.fieldinverse(x)
                    except Exception:
                        pass
                import importlib as _il
                b = _il.import_module(W.BACKEND_MODULES[name])
            else:
                b = import_backend_module(name)
            if name == "qaptools":
                def coeffs(lc):
                    out = {}
                    for c, v in lc.sig:
                        out[v] = (out.get(v, 0) + c) % p
                    return {k: c for k, c in out.items() if c}
            else:
                def coeffs(lc):
                    return {k: c % p for k, c in lc.lc.items() if c % p}
            pool, model, assign = [], [], {}
            one = b.one()
            (ok, ov), = coeffs(one).items()
            assign[ok] = 1
            pool.append(one)
            model.append({ok: 1})
            pool.append(b.zero())
            model.append({})
            for v, kind in zip(case["vals"], case["kinds"]):
                lc = (b.privval if kind == "priv" else b.pubval)(v)
                (k, c), = coeffs(lc).items()
                assign[k] = v % p
                pool.append(lc)
                model.append({k: 1})
            # modulus and inverse
            m = b.get_modulus()
            if m != p:
                add("wrong_modulus", {}, "get_modulus() = %d, scalar-field order of %s is %d" % (m, name, p))
            elif not is_probable_prime(m):
                add("wrong_modulus", {"why": "composite"}, "reported modulus is not prime")
            for x in case["inv"]:
                if x % p == 0:
                    continue
                try:
                    y = b.fieldinverse(x)
                except Exception as e:
                    add("inverse_wrong", {"x": "neg" if x < 0 else ("unreduced" if x >= p else "reduced")},
                        "fieldinverse(%d) raised %s" % (x, type(e).__name__))
                    continue
                if (y * x) % p != 1:
                    add("inverse_wrong", {"x": "neg" if x < 0 else ("unreduced" if x >= p else "reduced")},
                        "fieldinverse(%d) * %d != 1 mod p" % (x, x))
            nops = 0
            for k, ai, bi, sc in case["ops"]:
                a, bb = ai % len(pool), bi % len(pool)
                if k == "one":
                    # a fresh call: a cached constant object that an earlier operation altered would show here
                    r = b.one()
                    mr = {ok: 1}
                elif k == "zero":
                    r = b.zero()
                    mr = {}
                elif k in ("iadd", "isub", "imul"):
                    # augmented assignment on a *name bound to a pool member*: must not alter that member
                    r = pool[a]
                    if k == "iadd":
                        r += pool[bb]
                        mr = dict(model[a])
                        for kk, c in model[bb].items():
                            mr[kk] = (mr.get(kk, 0) + c) % p
                    elif k == "isub":
                        r -= pool[bb]
                        mr = dict(model[a])
                        for kk, c in model[bb].items():
                            mr[kk] = (mr.get(kk, 0) - c) % p
                    else:
                        r *= sc
                        mr = {kk: (c * sc) % p for kk, c in model[a].items()}
                elif k == "add":
                    r = pool[a] + pool[bb]
                    mr = dict(model[a])
                    for kk, c in model[bb].items():
                        mr[kk] = (mr.get(kk, 0) + c) % p
                elif k == "sub":
                    r = pool[a] - pool[bb]
                    mr = dict(model[a])
                    for kk, c in model[bb].items():
                        mr[kk] = (mr.get(kk, 0) - c) % p
                elif k == "neg":
                    r = -pool[a]
                    mr = {kk: (-c) % p for kk, c in model[a].items()}
                else:
                    r = pool[a] * sc
                    mr = {kk: (c * sc) % p for kk, c in model[a].items()}
                mr = {kk: c for kk, c in mr.items() if c}
                pool.append(r)
                model.append(mr)
                nops += 1
                for j, (lc, mm) in enumerate(zip(pool, model)):
                    got = coeffs(lc)
                    if got != mm:
                        which = "result" if j == len(pool) - 1 else "operand_or_older_member"
                        ev_g = sum(c * assign[kk] for kk, c in got.items()) % p
                        ev_m = sum(c * assign[kk] for kk, c in mm.items()) % p
                        add("algebra_wrong" if which == "result" else "operand_mutated", {"op": k, "which": which},
                            "after %s: pool member %d evaluates to %d, model %d" % (k, j, ev_g, ev_m))
                        break
                if viol:
                    break
        finally:
            os.chdir(old)
            shutil.rmtree(d, ignore_errors=True)
        return {"violations": viol, "digest": E.sha((name, [sorted((str(k), c) for k, c in m.items()) for m in model],
                                                     [v["detail"] for v in viol])),
                "nontrivial": E.sha((name, case["ops"])) if nops >= 3 else None, "events": nops + len(case["inv"]),
                "faults": {"operation_on_shared_object": nops,
                           "operand_aliased_with_itself": sum(1 for o in case["ops"] if o[1] % max(1, len(pool)) == o[2] % max(1, len(pool))),
                           "scalar_outside_0_p": sum(1 for o in case["ops"] if o[0] == "mul" and not (0 <= o[3] < p))},
                "probes": {"backend_" + name: 1},
                "sigs": [E.sha((name, o[0])) for o in case["ops"]], "outcome": "completed"}

    def shrink_candidates(self, case):
        for i in reversed(range(len(case["ops"]))):
            c = copy.deepcopy(case)
            del c["ops"][i]
            yield c
        if len(case["inv"]) > 1:
            for i in range(len(case["inv"])):
                c = copy.deepcopy(case)
                c["inv"] = [case["inv"][i]]
                yield c
        if len(case["vals"]) > 1:
            c = copy.deepcopy(case)
            c["vals"].pop()
            c["kinds"].pop()
            yield c


E.register(C13())


# ---------------------------------------------------------------------------------------
from . import qapsim as Q
import importlib


class QapRun:
    """One traced run of a plan on the qaptools backend over a SimFS, followed by prove()."""

    def __init__(self, plan, fs, seed, inputs=None, faults=None):
        self.plan, self.fs, self.seed = plan, fs, seed
        self.inputs = inputs if inputs is not None else [i["v"] for i in plan["inputs"]]
        self.faults = faults or {}
        self.caught = []
        self.outcome = None
        self.prove_outcome = None
        self.stderr = ""

    def run(self):
        fs = self.fs
        w = self.w = Q.QapWorld(fs, self.seed, self.plan["cfg"].get("bitlength"))
        try:
            if self.faults.get("toolfail"):
                w.sub.fail = tuple(self.faults["toolfail"])
            if self.faults.get("write_fault"):
                fs.write_fault = (self.faults["write_fault"][0], fs.nwrites.get(self.faults["write_fault"][0], 0) +
                                  self.faults["write_fault"][1])
            gen = self.gen = P.CodeGen(self.plan)
            src = self.src = gen.generate()
            rt = w.runtime
            b = w.backend
            g = {"PrivVal": rt.PrivVal, "PubVal": rt.PubVal, "LinComb": rt.LinComb, "guarded": rt.guarded,
                 "PrivValBool": w.boolean.PrivValBool, "PubValBool": w.boolean.PubValBool,
                 "LinCombBool": w.boolean.LinCombBool, "if_then_else": w.branching.if_then_else,
                 "PrivValFxp": lambda v: rt.PrivVal(int(v)), "PubValFxp": lambda v: rt.PubVal(int(v)),
                 "Array": importlib.import_module("pysnark.array").Array, "ConstVal": rt.ConstVal,
                 "subqap": b.subqap, "exportcomm": b.exportcomm, "__zero__": rt.ConstVal(0),
                 "PackIntMod": importlib.import_module("pysnark.pack").PackIntMod,
                 "__set_res__": lambda r: None, "__set_bl__": lambda bl: setattr(rt, "bitlength", bl),
                 "importcomm": b.importcomm, "__inputs__": self.inputs,
                 "__step__": lambda *a: None, "__enter__": lambda *a: None, "__leave__": lambda *a: None,
                 "__caught__": lambda k, e, m=(): self.caught.append((k, type(e).__name__, str(e)[:80])),
                 "__CAUGHT__": Exception, "__set_ie__": lambda v: None, "__cv__": lambda c: 0,
                 "__valret__": lambda o, r: None, "LinCombFxp": w.fixedpoint.LinCombFxp,
                 "__poseidon__": lambda xs: importlib.import_module("pysnark.poseidon_hash").poseidon_hash(list(xs))}

            def ckpt():
                # an explicit backend.prove() in the middle of the script; the one at exit follows
                fs.reader = "prove"
                try:
                    b.prove()
                finally:
                    fs.reader = "tracer"
            g["__prove__"] = ckpt
            saved_env = {}

            def setenv(name, value):
                saved_env.setdefault(name, os.environ.get(name))
                os.environ[name] = value
            g["__setenv__"] = setenv
            err = io.StringIO()
            with contextlib.redirect_stderr(err), contextlib.redirect_stdout(err):
                try:
                    exec(compile(src, "<qapplan>", "exec"), g)
                    self.outcome = "completed"
                except Exception as e:
                    self.outcome = "raised:%s:%s" % (type(e).__name__, str(e)[:100])
                if any(c[1] == "NameError" for c in self.caught):
                    raise W.HarnessError("generated script names something its namespace lacks: %r" % (self.caught,))
                self.calls_before_prove = len(w.sub.calls)
                if self.outcome == "completed":
                    fs.reader = "prove"
                    try:
                        b.prove()
                        self.prove_outcome = "returned"
                    except SystemExit as e:
                        self.prove_outcome = "exit:%r" % (e.code,)
                    except Exception as e:
                        self.prove_outcome = "raised:%s:%s" % (type(e).__name__, str(e)[:100])
                    finally:
                        fs.reader = "tracer"
            for name, old_v in saved_env.items():
                if old_v is None:
                    os.environ.pop(name, None)
                else:
                    os.environ[name] = old_v
            self.stderr = err.getvalue()
            self.eqs_complete = fs.complete("pysnark_eqs") or ""
            self.emitted = list(w.emitted)
            self.calls = list(w.sub.calls)
        finally:
            w.close()
        return self


def judge_qap_run(run, plan):
    """Yield (oracle, site, detail) problems of one qaptools run."""
    fs = run.fs
    eqs = run.eqs_complete
    try:
        items = Q.parse_eqs(eqs)
    except Exception as e:
        yield "file_malformed", {"file": "pysnark_eqs"}, "equation file does not follow the grammar: %s" % e
        return
    try:
        vals = Q.parse_values(fs.complete("pysnark_wires") or "")
        io_vals = Q.parse_values(fs.complete("pysnark_values") or "")
    except Exception as e:
        yield "file_malformed", {"file": "pysnark_wires/values"}, str(e)
        return
    allv = dict(vals)
    allv.update(io_vals)
    # (2) every equation holds
    for it in items:
        if it[0] == "eq":
            _, a, b, c, line = it
            try:
                ok = (Q.ev_terms(a, allv) * Q.ev_terms(b, allv) - Q.ev_terms(c, allv)) % Q.P == 0
            except KeyError as e:
                yield "wire_without_value", {"file": "pysnark_wires"}, "equation %r uses %s which has no value" % (line, e)
                continue
            if not ok:
                yield "eq_unsatisfied", {}, "equation %r does not hold on the wire/value files" % line
                break
    # (1) every emitted equation is in the file, in its context
    lines = set(" ".join(l.split()) for l in eqs.splitlines())
    for em in run.emitted:
        if em[0] == "eq":
            want = " ".join(("%s * %s = %s ." % (em[2], em[3], em[4])).split())
            if want not in lines:
                yield "eq_missing_from_file", {}, "emitted equation %r is not in pysnark_eqs" % want
                break
        else:
            _, ctx, sid, val = em
            val = int(val) % Q.P          # (values are field elements, however the backend writes them down)
            k = [n for n in io_vals if n.startswith(ctx + "/o_") and io_vals[n] % Q.P == val]
            tied = [n for n in k if " ".join(("* = 1 %s -1 %s" % (sid, n)).split()) in lines]
            if not tied:
                yield "public_value_not_tied", {}, "public value %r of wire %s has no o_ wire with a linking equation" % (
                    val, sid)
                break
    # cross-context equations (a program that itself reaches into its caller's secrets is judged at proving time)
    for it in items:
        if mixed_context_fault(plan, items):
            break
        if it[0] == "eq" and len(Q.ctx_of_terms(it[1], it[2], it[3])) > 1:
            yield "eq_mixes_contexts", {}, "equation %r mixes function contexts" % it[4]
            break
    # (4) glue
    blocks = {(it[1], it[2]): it[3] for it in items if it[0] == "ioblock"}
    fns = {it[2]: it[1] for it in items if it[0] == "function"}
    table = {f["name"]: f for f in plan.get("subqaps", [])}
    nglue = 0
    for it in items:
        if it[0] != "glue":
            continue
        nglue += 1
        _, c1, b1, c2, b2 = it
        w1, w2 = blocks.get((c1, b1)), blocks.get((c2, b2))
        if w1 is None or w2 is None:
            yield "glue_block_missing", {}, "glue %r refers to an undeclared block" % (it,)
            break
        if len(w1) != len(w2):
            yield "glue_incomplete", {}, "glue %r: blocks of different length %d / %d" % (it, len(w1), len(w2))
            break
        try:
            bad = [(x, y) for x, y in zip(w1, w2) if allv[x] % Q.P != allv[y] % Q.P]
        except KeyError as e:
            yield "wire_without_value", {"file": "pysnark_wires"}, "glued wire %s has no value" % e
            break
        if bad:
            yield "glue_values_differ", {}, "glue %r: wires %r carry different values" % (it, bad[0])
            break
        f = table.get(fns.get(c2))
        if f is not None and not plan.get("same_name_fault"):
            want = f["nargs"] + P.CodeGen.SUBQAP_RET[f["tmpl"]]
            if len(w1) != want:
                yield "glue_incomplete", {}, "call %s of %s: %d glued wires, %d arguments+results" % (
                    c2, f["name"], len(w1), want)
                break
    # (a call without any secret argument or result has nothing to tie and gets no blocks)
    io_by_name = {}
    for f in plan.get("subqaps", []):
        io_by_name.setdefault(f["name"], set()).add(f["nargs"] + P.CodeGen.SUBQAP_RET[f["tmpl"]] > 0)
    ncalls = sum(1 for c in fns if c != "main" and io_by_name.get(fns[c], {True}) != {False})
    ambiguous = any(c != "main" and len(io_by_name.get(fns[c], {True})) > 1 for c in fns)   # (two bodies, one name)
    # a call whose body raised (the script caught it and went on) was entered but never tied to its caller
    raised = other = 0
    for (site, cls, msg) in getattr(run, "caught", []):
        info = run.gen.sites.get(site, {}) if getattr(run, "gen", None) else {}
        if info.get("stmt") == "subqap_call" and cls == "AssertionError":
            raised += 1
        elif info.get("stmt") == "subqap_call":
            other += 1          # (failed before or inside the call - cannot be told apart: the count is not judged)
    ncalls -= raised
    if nglue != ncalls and not ambiguous and not other:
        yield "glue_incomplete", {"what": "count"}, "%d sub-circuit calls, %d [glue] lines" % (ncalls, nglue)


def subqap_under_guard(plan):
    """True when the plan calls a sub-circuit function inside a region guarded by a secret condition."""
    def walk(body, depth):
        for s in body:
            if s.get("s") == "subqap_call" and depth:
                return True
            for k in ("body", "true", "false"):
                if isinstance(s.get(k), list) and walk(s[k], depth + 1):
                    return True
        return False
    return walk(plan["body"], 0)


def mixed_context_fault(plan, items=None):
    """True when the plan calls a sub-circuit function that multiplies by a secret of its caller (template 8)."""
    fns = plan.get("subqaps", [])
    bad = {k for k, f in enumerate(fns) if f["tmpl"] == 8}
    if not bad:
        return False

    def calls(body):
        for s in body:
            if s.get("s") == "subqap_call" and (s["fn"] % len(fns)) in bad:
                return True
            for k in ("body", "true", "false"):
                if isinstance(s.get(k), list) and calls(s[k]):
                    return True
        return False
    inner = any(f["tmpl"] == 3 and f.get("inner") in bad for f in fns)
    return calls(plan["body"]) or inner


def judge_qap_prove(run, plan, faults):
    fs = run.fs
    eqs = run.eqs_complete
    if mixed_context_fault(plan):
        try:
            mixed = any(it[0] == "eq" and len(Q.ctx_of_terms(it[1], it[2], it[3])) > 1 for it in Q.parse_eqs(eqs))
        except Exception:
            mixed = False
        if mixed:
            # the trace holds an equation over wires of two calls: proving must refuse it, not file it somewhere
            if run.prove_outcome == "returned" or "Inconsistent contexts" not in ((run.prove_outcome or "") + run.stderr):
                yield "mixed_context_not_reported", {}, "an equation mixes the wires of two calls but the proving step " \
                    "ended with %s" % run.prove_outcome
            return
    exp, per_ctx = Q.expected_function_files(eqs)
    calls = run.calls
    # visibility at read time
    def semantic(t):
        return [ln for ln in t.splitlines() if ln.strip() and not ln.startswith("#")]
    for reader, path, vis, comp in fs.reads:
        if reader != "tracer" and semantic(vis) != semantic(comp):
            yield "not_visible_when_read", {"file": path if not path.startswith("pysnark_eqs_") else "pysnark_eqs_<fn>",
                                            "reader": reader}, \
                "%s read %s when only %d of %d lines were visible (first hidden: %r)" % (
                    reader, path, len(semantic(vis)), len(semantic(comp)), semantic(comp)[len(semantic(vis)):][:1])
            break
    # failing tool
    order = ["qapgen", "qapgenf", "qapprove", "qapver"]
    failed = [c for c in calls[run.calls_before_prove:] if c.get("rc")]
    if failed and not failed[0].get("injected_failure"):
        f = failed[0]
        yield "tool_rejected_its_input", {"tool": f["tool"]}, "%s failed on what the backend gave it: %s" % (
            f["tool"], f.get("error", "rc=%r" % f.get("rc")))
        failed = []
    if failed:
        f = failed[0]
        later = calls[calls.index(f) + 1:]
        dep = order[order.index(f["tool"]) + 1:] if f["tool"] in order else []
        ran = [c["tool"] for c in later if c["tool"] in dep]
        if ran:
            yield "tool_run_after_failure", {"failed": f["tool"]}, "%s failed but %r ran afterwards" % (f["tool"], ran)
        reported = ("Error in qaptools" in run.stderr or (run.prove_outcome or "").startswith(("exit", "raised")))
        if not reported:
            yield "tool_failure_not_reported", {"failed": f["tool"]}, "%s failed silently" % f["tool"]
        return
    if run.prove_outcome is None:
        return
    names = {}
    inconsistent = False
    for call, (fname, lines, dg) in exp.items():
        if fname in names and names[fname][1] != dg:
            inconsistent = True
        names.setdefault(fname, (lines, dg))
    if inconsistent:
        if "Inconsistent functions" not in (run.prove_outcome or "") and "Inconsistent" not in run.stderr:
            yield "inconsistent_functions_not_reported", {}, "two calls of one function name have different " \
                "equations but proving went on: %s" % run.prove_outcome
        return
    if run.prove_outcome != "returned" and not any(c.get("rc") for c in calls[run.calls_before_prove:]):
        yield "prove_failed", {"how": run.prove_outcome.split(":")[0] + ":" + run.prove_outcome.split(":")[1]
                               if ":" in run.prove_outcome else run.prove_outcome}, \
            "proving step ended with %s (stderr: %s)" % (run.prove_outcome, run.stderr.strip().splitlines()[-1:] or "")
        return
    for fname, (lines, dg) in names.items():
        got = fs.complete("pysnark_eqs_" + fname)
        want = "\n".join(lines) + "\n"
        if got is None:
            yield "function_file_missing", {}, "pysnark_eqs_%s was not written" % fname
            break
        if got != want:
            gl, wl = got.splitlines(), want.splitlines()
            missing = [l for l in wl if l not in gl]
            extra = [l for l in gl if l not in wl]
            yield "function_file_differs", {"missing": bool(missing), "extra": bool(extra)}, \
                "pysnark_eqs_%s: missing %r extra %r" % (fname, missing[:2], extra[:2])
            break
        gf = [c for c in calls if c["tool"] == "qapgenf" and c["argv"][2] == "pysnark_eqs_" + fname]
        if gf and gf[-1]["argv"][5] != dg:
            yield "digest_differs", {}, "function %s: signature %s passed to qapgenf, my digest of its equations %s" % (
                fname, gf[-1]["argv"][5], dg)
            break
    # distinct functions with distinct equations must have distinct digests
    seen = {}
    for fname, (lines, dg) in names.items():
        if dg in seen and seen[dg] != lines:
            yield "digest_collision", {}, "different equation sets share digest %s" % dg
        seen[dg] = lines
    # schedule
    sched = fs.complete("pysnark_schedule") or ""
    sf = [ln.split()[1] for ln in sched.splitlines() if ln.startswith("[function]")]
    if sorted(sf) != sorted(exp):
        yield "schedule_differs", {}, "schedule lists calls %r, equation file has %r" % (sorted(sf), sorted(exp))
    if not any(c["tool"] == "qapprove" for c in calls):
        yield "prove_failed", {"how": "no-qapprove"}, "qapprove was never invoked"


class C12(TraceCheck):
    name = "C12"
    prop = "C12"
    props = ()
    budget = {"quick": 2400, "thorough": 90000}
    components = ("real: pysnark/qaptools/{backend,qapsplit,schedule,options,runqapgen,runqapinput,runqapgenf,"
                  "runqapprove,runqapver}.py and pysnark/runtime.py over a simulated directory; stubs: SimFS (my model "
                  "of CPython text-file buffering and visibility; cross-checked against a real directory by "
                  "`./vcheck C12x`), the six qaptools executables (in-process fakes; the fake qapprove evaluates "
                  "every scheduled equation on the wire file); pysnark/qaptools/contract.py is not exercised")
    rule = ("histories in one simulated directory: a traced run of a plan with @subqap functions (called several "
            "times, nested, list results), public outputs, exported/imported commitments, followed by the "
            "backend's own proving step, optionally followed by a second run of the same plan on other inputs; "
            "faults: writer buffer capacity in {0, line, 64, 8192, unbounded}, n-th invocation of a tool fails, "
            "n-th write of the wire file fails, two different bodies under one function name. oracle: my own "
            "parser/evaluator of the equation grammar: every equation holds on the wire + value files, every "
            "equation seen at the backend seam is in the file, public values tied through o_ wires, no file is "
            "read while part of it is still buffered, per-function files equal my own split (sorted, context "
            "stripped) and the signature passed to qapgenf equals my digest, inconsistent same-named functions are "
            "reported, every call has a [glue] with blocks of arguments+results carrying pairwise equal values, a "
            "failing tool is reported and nothing downstream runs, the second run reuses the keys. non-trivial = "
            "distinct (plan, fault schedule) whose first run reached the proving step")

    def gen(self, rng, i, tier):
        cfg = {"backend": "qaptools", "bitlength": rng.choice([4, 8]), "resolution": 2, "value_bias": "tiny",
               "max_nesting": 0, "p_try": 1.0, "p_bool_cond": 1.0, "fxp": False}
        if i % 4 == 3:
            # the general plan space (operators, assertions, selection, arrays, guarded regions) on this backend
            gcfg = dict(cfg, bitlength=rng.choice([3, 4, 8]), max_nesting=rng.choice([0, 1, 2]),
                        p_bool_cond=0.5, fxp=False)
            plan = P.generate(rng, gcfg, dict(FULL_MIX, set_ie=0, fxp=0))
            for inp in plan["inputs"]:
                if inp["t"] == "F":
                    inp["t"], inp["v"] = "I", int(inp["v"])
            r2 = _random.Random("pybool/%s" % P.plan_digest(plan))
            for inp in plan["inputs"]:
                if inp["t"] == "B" and r2.random() < 0.4:
                    inp["v"] = bool(inp["v"])        # PrivValBool(True): a Python bool is a legal boolean value
            return {"plan": plan, "faults": {"bufcap": rng.choice([0, "line", 64, 8192, None])}, "second_run": False,
                    "alt_inputs": [], "seed": rng.randrange(1 << 30), "general": True}
        nf = rng.randrange(0, 4)
        subqaps = []
        for k in range(nf):
            subqaps.append({"name": "f%d" % k, "nargs": rng.randrange(1, 4), "tmpl": rng.randrange(0, 8),
                            "inner": rng.randrange(0, k) if k else None})
            if subqaps[-1]["tmpl"] in (6, 7):
                subqaps[-1]["nargs"] = 0
            r3 = rng.random()
            if 0.12 <= r3 < 0.16:
                subqaps[-1]["tmpl"], subqaps[-1]["nargs"] = 12, 2      # a procedure: arguments only, returns None
            if r3 < 0.12:
                # boolean-typed arguments / results, bodies that may raise
                subqaps[-1]["tmpl"], subqaps[-1]["nargs"] = (9 if r3 < 0.05 else 10 if r3 < 0.09 else 11), 2
            if subqaps[-1].get("inner") is not None and subqaps[subqaps[-1]["inner"]]["tmpl"] == 11:
                subqaps[-1]["inner"] = None     # (a body that may raise is only called directly)
            if rng.random() < 0.04:
                subqaps[-1]["tmpl"], subqaps[-1]["swap"] = 8, rng.random() < 0.5
                subqaps[-1]["nargs"] = max(1, subqaps[-1]["nargs"])
        same_name = nf >= 2 and rng.random() < 0.08
        if same_name:
            subqaps[1]["name"] = subqaps[0]["name"]
        elif nf >= 2 and rng.random() < 0.12:
            # names that differ only in punctuation / are prefixes of one another
            subqaps[0]["name"], subqaps[1]["name"] = rng.choice([("g-1", "g_1"), ("chk.nz", "chk_nz"), ("f1", "f1_0"),
                                                                 ("m_2_h", "m")])
        inputs = [{"kind": rng.choice(["priv", "pub"]), "t": "I", "v": rng.choice([0, 1, 2, 3, -2, 5, 7])}
                  for _ in range(rng.randrange(1, 4))]
        body = []
        exported = []
        for _ in range(rng.randrange(1, 9)):
            u = rng.random()
            if subqaps and u < 0.4:
                body.append({"s": "subqap_call", "fn": rng.randrange(nf),
                             "args": [{"ref": rng.randrange(0, 16), "t": "I"} for _ in range(3)], "try": True})
                if rng.random() < 0.06:
                    # the call happens inside a region guarded by a secret condition (a boolean default operand or input)
                    body[-1] = {"s": "guarded", "cond": {"ref": 0, "t": "B"}, "body": [body[-1]], "try": True}
                    cfg["max_nesting"] = 1
            elif u < 0.5:
                body.append({"s": "let", "e": {"op": rng.choice(["*", "+", "-"]), "a": {"ref": rng.randrange(16), "t": "I"},
                                                "b": {"ref": rng.randrange(16), "t": "I"}, "t": "I"}, "try": True})
            elif u < 0.6:
                # scaled / negated / shifted single wires (linear combinations with one term or a constant part)
                k = rng.random()
                if k < 0.4:
                    e = {"op": "*", "a": {"ref": rng.randrange(16), "t": "I"}, "b": {"k": rng.choice([2, 3, -1, 0]), "t": "I"}, "t": "I"}
                elif k < 0.7:
                    e = {"un": "neg", "a": {"ref": rng.randrange(16), "t": "I"}, "t": "I"}
                else:
                    e = {"op": "+", "a": {"ref": rng.randrange(16), "t": "I"}, "b": {"k": rng.choice([1, 5]), "t": "I"}, "t": "I"}
                body.append({"s": "let", "e": e, "try": True})
            elif u < 0.75:
                body.append({"s": "val", "a": {"ref": rng.randrange(16), "t": "I"}, "try": True})
            elif u < 0.82:
                body.append({"s": "let", "e": {"op": rng.choice(["<", "=="]), "a": {"ref": rng.randrange(16), "t": "I"},
                                                "b": {"k": rng.randrange(4), "t": "I"}, "t": "B"}, "try": True})
            elif u < 0.9:
                nm = "blk%d" % len(exported)
                exported.append(nm)
                body.append({"s": "exportcomm", "vals": [{"ref": rng.randrange(16), "t": "I"}
                                                         for _ in range(rng.randrange(1, 3))], "name": nm, "try": True})
            elif exported:
                body.append({"s": "importcomm", "name": rng.choice(exported), "try": True})
        plan = {"cfg": cfg, "inputs": inputs, "body": body, "subqaps": subqaps}
        if same_name:
            plan["same_name_fault"] = True
        faults = {"bufcap": rng.choice([0, "line", 64, 8192, 8192, None])}
        u = rng.random()
        if u < 0.12:
            faults["toolfail"] = [rng.choice(["qapgen", "qapgenf", "qapprove", "qapver", "qapinput"]), rng.choice([1, 1, 2])]
        elif u < 0.2:
            faults["write_fault"] = ["pysnark_wires", rng.randrange(1, 40)]
        second = rng.random() < 0.35
        alt = [rng.choice([0, 1, 2, 3, -2, 5, 7]) for _ in inputs]
        case = {"plan": plan, "faults": faults, "second_run": second, "alt_inputs": alt, "seed": rng.randrange(1 << 30)}
        if subqaps and not same_name and rng.random() < 0.25:
            # directory history of three runs: the program, an edited version of one of its functions (whose key
            # generation may fail), the original program again
            j = rng.randrange(len(subqaps))
            edited = copy.deepcopy(subqaps)
            edited[j]["tmpl"] = (edited[j]["tmpl"] + rng.randrange(1, 3)) % 3 if edited[j]["tmpl"] < 3 else rng.randrange(0, 3)
            edited[j]["nargs"] = max(1, edited[j]["nargs"])      # (the argument-free template has no parameters)
            case["edited_subqaps"] = edited
            case["edit_fault"] = rng.choice([None, ["qapgenf", 1], ["qapgenf", 2], ["qapprove", 1]])
            case["second_run"] = False
            case["faults"] = {"bufcap": faults["bufcap"]}
        r6 = _random.Random("huge/%s" % P.plan_digest(plan))
        if r6.random() < 0.03:
            # a witness value of several thousand decimal digits (a long product that nothing reduced)
            plan["inputs"].append({"kind": "priv", "t": "I", "v": 10 ** 5000 + 3})
        r5 = _random.Random("setenv/%s" % P.plan_digest(plan))
        if r5.random() < 0.06:
            # surroundings: the program itself sets a directory variable after the import (too late to matter)
            plan["body"].insert(r5.randrange(0, len(plan["body"]) + 1),
                                {"s": "setenv", "name": r5.choice(["PYSNARK_KEYDIR", "PYSNARK_PROOFDIR"]), "value": "elsewhere"})
        r7 = _random.Random("fxpconst/%s" % P.plan_digest(plan))
        if r7.random() < 0.08 and not case.get("edited_subqaps"):
            # two features meeting: a function that does fixed-point arithmetic with a float constant which its caller
            # has just used too
            plan["subqaps"].append({"name": "fxk", "nargs": 1, "tmpl": 13, "inner": None})
            for _ in range(r7.randrange(1, 3)):
                plan["body"].append({"s": "subqap_call", "fn": len(plan["subqaps"]) - 1,
                                     "args": [{"ref": r7.randrange(0, 16), "t": "I"} for _ in range(3)], "try": True})
        r4 = _random.Random("ckpt/%s" % P.plan_digest(plan))
        if r4.random() < 0.15 and not case["second_run"] and not case.get("edited_subqaps"):
            # history: an explicit prove() in the middle of the script, the one at exit follows (single run, no
            # tool faults)
            plan["body"].insert(r4.randrange(0, len(plan["body"]) + 1), {"s": "checkpoint_prove"})
            case["faults"] = {"bufcap": faults.get("bufcap", 8192)}
        return case

    def run(self, case):
        plan, faults = case["plan"], case.get("faults", {})
        fs = Q.SimFS(capacity=faults.get("bufcap", 8192))
        viol = []
        site0 = {}

        under_guard = subqap_under_guard(plan)

        def add(oracle, site, detail, run_no=1):
            s = dict(site)
            if run_no == 2:
                s["run"] = 2
            if under_guard:
                s["subqap_under_guard"] = True
            if not any(v["oracle"] == oracle and v["site"] == s for v in viol):
                viol.append({"property": "C12", "oracle": oracle, "site": s, "detail": detail})
        r1 = QapRun(plan, fs, case["seed"], faults=faults).run()
        probes = {}
        fired = {}
        if fs.fault_fired:
            fired["write_error"] = fs.fault_fired
        if any(c.get("injected_failure") for c in r1.calls):
            fired["toolfail"] = 1
        fired["bufcap:%s" % (faults.get("bufcap"),)] = 1
        if plan.get("same_name_fault"):
            fired["same_name_different_body"] = 1
        write_failed = fs.fault_fired > 0
        if r1.outcome != "completed":
            probes["script_raised"] = 1
            if not write_failed and not fired.get("toolfail") and r1.outcome.split(":")[1] not in ("OSError", "IOError") \
                    and "Inconsistent" not in r1.outcome:      # (a checkpoint prove() reporting an inconsistency is fine)
                # every statement of these plans catches its own errors: tracing itself must not fall over
                add("tracing_raised", {"exc": r1.outcome.split(":")[1]}, "the traced program died: %s" % r1.outcome[:200])
        if not write_failed:
            for oracle, site, detail in judge_qap_run(r1, plan):
                add(oracle, site, detail)
            if r1.outcome == "completed":
                for oracle, site, detail in judge_qap_prove(r1, plan, faults):
                    add(oracle, site, detail)
        else:
            probes["write_error_run_not_judged"] = 1
        nt = None
        if r1.prove_outcome is not None:
            nt = E.sha((plan, faults))
            probes["reached_proving"] = 1
        events = fs.ops + len(r1.calls)
        if case.get("second_run") and r1.prove_outcome == "returned" and not viol and not fired.get("toolfail") \
                and not write_failed:
            fs.reads.clear()
            fs.write_fault = None
            r2 = QapRun(plan, fs, case["seed"] + 1, inputs=case["alt_inputs"], faults={}).run()
            fired["second_run"] = 1
            for oracle, site, detail in judge_qap_run(r2, plan):
                add(oracle, site, detail, 2)
            if r2.outcome == "completed":
                for oracle, site, detail in judge_qap_prove(r2, plan, {}):
                    add(oracle, site, detail, 2)
                if r1.caught or r2.caught:
                    probes["second_run_not_comparable"] = 1     # a rejected statement changes the program
                elif r2.prove_outcome == "returned" and any(c["tool"] in ("qapgenf", "qapgen") for c in r2.calls):
                    e1, _ = Q.expected_function_files(r1.eqs_complete)
                    e2, _ = Q.expected_function_files(r2.eqs_complete)
                    d1 = {f: dg for (f, l, dg) in e1.values()}
                    d2 = {f: dg for (f, l, dg) in e2.values()}
                    if d1 == d2:
                        add("keys_not_reused", {}, "second run with other inputs re-generated keys: %r" % (
                            [c["tool"] for c in r2.calls],), 2)
                    else:
                        add("digest_depends_on_inputs", {}, "function digests differ between two runs of one program "
                            "on different inputs", 2)
            events += len(r2.calls)
        if case.get("edited_subqaps") and r1.prove_outcome == "returned" and not viol and not write_failed:
            plan2 = dict(plan, subqaps=case["edited_subqaps"])
            for k, (pl, flt) in enumerate(((plan2, {"toolfail": case["edit_fault"]} if case.get("edit_fault") else {}),
                                           (plan, {})), start=2):
                fs.reads.clear()
                rk = QapRun(pl, fs, case["seed"] + k, faults=flt).run()
                fired["run_%d_in_same_directory" % k] = 1
                if any(c.get("injected_failure") for c in rk.calls):
                    fired["toolfail"] = fired.get("toolfail", 0) + 1
                for oracle, site, detail in judge_qap_run(rk, pl):
                    add(oracle, dict(site, history="edited"), detail, 1)
                if rk.outcome == "completed":
                    for oracle, site, detail in judge_qap_prove(rk, pl, flt):
                        add(oracle, dict(site, history="edited", run=k), detail, 1)
                events += len(rk.calls)
        return {"violations": viol,
                "digest": E.sha((r1.outcome, r1.prove_outcome, fs.snapshot(), [c["tool"] for c in r1.calls],
                                 [v["oracle"] for v in viol])),
                "nontrivial": nt, "events": events, "faults": fired, "probes": probes,
                "sigs": [E.sha((faults.get("bufcap"), sorted(c["tool"] for c in r1.calls), r1.prove_outcome))],
                "outcome": [r1.outcome, r1.prove_outcome]}

    def shrink_candidates(self, case):
        for c in P.shrink_plan_candidates(case):
            yield c
        if case.get("second_run"):
            c = copy.deepcopy(case)
            c["second_run"] = False
            yield c
        for i in reversed(range(len(case["plan"].get("subqaps", [])))):
            if i == len(case["plan"]["subqaps"]) - 1 and i > 0:
                c = copy.deepcopy(case)
                c["plan"]["subqaps"].pop()
                yield c


E.register(C12())
