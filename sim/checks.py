"""The registered checks (one per claimed property)."""
import copy

from . import engine as E
from . import plan as P
from . import tracesim as T
from . import world as W

REAL_TRACE = ("real: pysnark/runtime.py, boolean.py, fixedpoint.py, branching.py, array.py and the "
              "selected backend module (snarkjs / zkinterface x3) imported fresh from /repo for every "
              "run; stub: the `flatbuffers` package for the zkinterface backends (verif/stubs/py)")


def swarm_cfg(rng, backends=W.DICT_BACKENDS, fxp_p=0.5, bits=(3, 4, 5, 6, 8, 8, 16)):
    return {
        "backend": rng.choice(backends),
        "bitlength": rng.choice(bits),
        "resolution": rng.choice([0, 1, 2, 3, 4, 8]),
        "value_bias": rng.choice(["tiny", "mixed", "mixed", "field"]),
        "max_nesting": rng.choice([0, 1, 2, 3]),
        "p_try": rng.choice([0.0, 0.5, 0.9, 1.0]),
        "p_bool_cond": rng.choice([0.0, 0.5, 1.0]),
        "fxp": rng.random() < fxp_p,
    }


def swarm_weights(rng, base, toggles):
    """Each toggle kind is switched off with p = 1/2 so that rare mixes get runs to themselves."""
    w = dict(base)
    for k in toggles:
        if rng.random() < 0.5:
            w[k] = 0
    return w


def draw_faults(rng, kinds, plan):
    """At most one abort per run in most runs; none in ~40 % of runs."""
    f = {}
    u = rng.random()
    if "abort_seam" in kinds and u < 0.35:
        f["abort_seam"] = 1 + int(rng.random() ** 2 * 120)
        if rng.random() < 0.2:
            f["abort_exc"] = "interrupt"
    elif "abort_stmt" in kinds and u < 0.6:
        f["abort_stmt"] = 1 + rng.randrange(0, 3 * max(1, P.count_stmts(plan["body"])))
    return f


class TraceCheck:
    """Base for checks decided by tracesim."""
    props = ()
    weights = {}
    toggles = ("div", "bits", "shift", "pow", "unary", "boolop", "check", "ite", "tobits", "tobool",
               "assert", "val", "set_ie")
    fault_kinds = ()
    backends = W.DICT_BACKENDS
    components = REAL_TRACE
    assumptions = []
    nontrivial_probe = None

    def cfg(self, rng):
        return swarm_cfg(rng, self.backends)

    def gen(self, rng, i, tier):
        cfg = self.cfg(rng)
        w = swarm_weights(rng, self.weights, self.toggles)
        plan = P.generate(rng, cfg, w)
        return {"plan": plan, "faults": draw_faults(rng, self.fault_kinds, plan)}

    def execute(self, case):
        return T.TraceRun(case["plan"], case.get("faults"), props=self.props).run()

    def result(self, tr, case, extra_viol=()):
        rec = tr.w.rec
        faults = {}
        if tr.probes.get("abort_seam_fired"):
            faults["abort@seam"] = 1
        if tr.probes.get("abort_stmt_fired"):
            faults["abort@stmt"] = 1
        ncaught = len(tr.caught)
        if ncaught:
            faults["caught"] = ncaught
        if tr.probes.get("step_in_dead_region"):
            faults["guard0"] = 1
        if tr.probes.get("set_ie"):
            faults["user_nocheck"] = tr.probes["set_ie"]
        viol = [dict(v) for v in tr.violations if v["property"] == self.prop] + list(extra_viol)
        nt = None
        if self.is_nontrivial(tr):
            nt = P.plan_digest({"p": case["plan"], "f": case.get("faults")})
        return {
            "violations": viol,
            "digest": E.sha(tr.digest_material()),
            "nontrivial": nt,
            "events": tr.steps + rec.seam_calls,
            "faults": faults,
            "probes": dict(tr.probes),
            "sigs": [E.sha(s) for s in tr.state_sigs if not (isinstance(s, tuple) and s and s[0] == "C04")],
            "outcome": tr.outcome,
        }

    def is_nontrivial(self, tr):
        return len(tr.w.rec.cons) > 0

    def run(self, case):
        tr = self.execute(case)
        return self.result(tr, case)

    def shrink_candidates(self, case):
        return P.shrink_plan_candidates(case)


# ---------------------------------------------------------------------------------------
class C08(TraceCheck):
    name = "C08"
    prop = "C08"
    props = ("C08",)
    budget = {"quick": 4000, "thorough": 200000}
    weights = {"guarded": 9, "ite_call": 4, "let": 8, "assert": 3, "set_ie": 1.0, "fxp": 1}
    toggles = ("div", "bits", "shift", "pow", "boolop", "check", "tobits", "tobool", "assert", "set_ie",
               "ite_call")
    fault_kinds = ("abort_seam", "abort_stmt")
    rule = ("seeded plans of nested guarded regions (decorator form and callable if_then_else branches, "
            "raw 0/1 and boolean-typed conditions, guard values 0/1 per level), left by return, by a "
            "value-caused exception of the body, by an exception injected at a statement boundary or "
            "at the n-th backend seam call; oracle after every statement and in a finally after every "
            "region: snapshot model of (guard, error mode, ONE) by identity, conjunction of enclosing "
            "condition values inside. non-trivial = distinct (plan, fault schedule) in which at least "
            "one region was actually left (by return or exception)")

    def cfg(self, rng):
        c = swarm_cfg(rng, self.backends, fxp_p=0.2, bits=(3, 4, 6, 8))
        c["max_nesting"] = rng.choice([1, 2, 3, 3])
        return c

    def is_nontrivial(self, tr):
        return bool(tr.probes.get("region_left_by_return") or tr.probes.get("region_left_by_exception"))


E.register(C08())


# ---------------------------------------------------------------------------------------
FULL_MIX = {"let": 10, "assert": 3, "guarded": 2.5, "ite_call": 1.0, "set_ie": 0.3, "val": 1,
            "array": 0.8, "aset": 0.8, "aget": 1.0}


class C01(TraceCheck):
    name = "C01"
    prop = "C01"
    props = ("C01",)
    budget = {"quick": 3000, "thorough": 200000}
    weights = FULL_MIX
    fault_kinds = ("abort_seam",)
    rule = ("seeded straight-line plans over the public API (all operators with the three operand-kind "
            "combinations, assertions, conversions, selection, arrays, guarded regions with both guard "
            "values, user-level ignore_errors), per-run swarm of bitlength/resolution/backend field/"
            "statement mix/value bias; after every statement every newly emitted constraint is evaluated "
            "on the recorder's own assignment modulo the hard-coded prime of the backend name; "
            "constraints emitted while the plan itself has ignore_errors(True) are exempt. non-trivial = "
            "distinct (plan, faults) with at least one non-exempt constraint evaluated")

    def is_nontrivial(self, tr):
        rec = tr.w.rec
        return any(not f for f in rec.cons_flags)


class C04(TraceCheck):
    name = "C04"
    prop = "C04"
    props = ("C04",)
    budget = {"quick": 3000, "thorough": 200000}
    weights = dict(FULL_MIX, set_ie=1.2, guarded=4)
    fault_kinds = ("abort_seam",)
    rule = ("same plan space as C01 with more weight on the error paths (user-level ignore_errors, false "
            "guards with operands invalid for the body); after every statement every secret object "
            "visible to the script (variables, list and array elements) must satisfy value mod p == "
            "wire expression evaluated on the recorder's assignment; only the earliest mismatch of a "
            "run is reported. non-trivial = distinct (plan, faults) in which at least one secret object "
            "was produced under a false guard or with error checking off")

    def is_nontrivial(self, tr):
        return bool(tr.probes.get("step_in_dead_region") or tr.probes.get("set_ie"))


def segment_diff(tr1, tr2):
    """First statement site at which the two runs' event logs differ, or None."""
    r1, r2 = tr1.w.rec, tr2.w.rec
    c1, c2 = r1.canon_cons(), r2.canon_cons()

    def seg(tr, rec, cc, lo, hi):
        out = []
        for e in rec.events[lo:hi]:
            out.append(e[0] if e[0] != "con" else ("con", cc[e[1]]))
        return out
    prev1 = prev2 = 0
    for (s1, n1), (s2, n2) in zip(tr1.marks, tr2.marks):
        if s1 != s2:
            return s1, "control flow diverged"
        if seg(tr1, r1, c1, prev1, n1) != seg(tr2, r2, c2, prev2, n2):
            return s1, "events of this statement differ (%d vs %d)" % (n1 - prev1, n2 - prev2)
        prev1, prev2 = n1, n2
    if len(tr1.marks) != len(tr2.marks):
        return (tr1.marks + tr2.marks)[min(len(tr1.marks), len(tr2.marks))][0], "different number of steps"
    return None


class C06(TraceCheck):
    name = "C06"
    prop = "C06"
    props = ()
    budget = {"quick": 2000, "thorough": 100000}
    weights = dict(FULL_MIX, set_ie=0)
    rule = ("twin executions of one generated source on two input vectors (every boolean input flipped "
            "with p=1/2 so that secret conditions take both outcomes; in 30 % of pairs both twins run "
            "under ignore_errors(True) so that one may carry invalid operands); both completing => "
            "identical allocation-kind sequence, identical canonical constraint list (terms sorted, "
            "coefficients mod p, zero terms dropped) statement by statement, identical canonical wire "
            "expression of every final variable. non-trivial = distinct plans whose twins both completed "
            "and emitted at least one constraint with different assignments")

    def cfg(self, rng):
        c = swarm_cfg(rng, self.backends)
        c["p_try"] = 0.0
        return c

    def gen(self, rng, i, tier):
        cfg = self.cfg(rng)
        w = swarm_weights(rng, self.weights, self.toggles)
        plan = P.generate(rng, cfg, w)
        nocheck = rng.random() < 0.3
        if nocheck:
            plan["body"].insert(0, {"s": "set_ie", "value": True})
        g = P.Gen(rng, cfg)
        alt = []
        for inp in plan["inputs"]:
            if inp["t"] == "B":
                alt.append(1 - inp["v"] if rng.random() < 0.5 else inp["v"])
            elif inp["t"] == "I":
                alt.append(g.small_int() if rng.random() < 0.8 else inp["v"])
            else:
                alt.append(rng.choice([0.5, 1.5, -2.25, 3.0, 0.0, 1.0, -1.0, 7.5, 0.125]))
        return {"plan": plan, "alt_inputs": alt}

    def run(self, case):
        plan = case["plan"]
        tr1 = T.TraceRun(plan, props=()).run()
        alt = list(case["alt_inputs"]) + [i["v"] for i in plan["inputs"]][len(case["alt_inputs"]):]
        tr2 = T.TraceRun(plan, inputs=alt, props=()).run()
        viol = []
        discarded = not (tr1.outcome == "completed" and tr2.outcome == "completed")
        nt = None
        if not discarded:
            d = segment_diff(tr1, tr2)
            if d is not None:
                site, why = d
                info = tr1.gen.sites.get(site, {})
                s = dict(info.get("desc") or {"op": info.get("kind")})
                s["nocheck"] = bool(tr1.user_ie or tr2.user_ie or any(tr1.w.rec.cons_flags))
                viol.append({"property": "C06", "oracle": "structure_differs", "site": s,
                             "detail": "site %d: %s" % (site, why)})
            else:
                for nm in tr1.finals:
                    if nm in tr2.finals and tr1.finals[nm][1] != tr2.finals[nm][1]:
                        s = dict(tr1.gen.origin.get(nm, {}))
                        viol.append({"property": "C06", "oracle": "result_wire_differs", "site": s,
                                     "detail": "%s has different wire expressions in the two runs" % nm})
                        break
            r1, r2 = tr1.w.rec, tr2.w.rec
            if r1.cons and (r1.pub, r1.priv) != (r2.pub, r2.priv):
                nt = P.plan_digest(plan)
        res = self.result(tr1, case, viol)
        res["nontrivial"] = nt
        res["discarded"] = discarded
        res["digest"] = E.sha((tr1.digest_material(), tr2.digest_material()))
        res["events"] += tr2.steps + tr2.w.rec.seam_calls
        res["outcome"] = (tr1.outcome, tr2.outcome)
        if tr1.probes.get("step_in_dead_region") != tr2.probes.get("step_in_dead_region"):
            res["probes"]["twins_took_different_guard_outcomes"] = 1
        return res


E.register(C01())
E.register(C04())
E.register(C06())


# ---------------------------------------------------------------------------------------
# proversim checks
import random as _random

from . import proversim as PV

REAL_PROVER = ("real: pysnark/runtime.py, boolean.py, fixedpoint.py, branching.py, array.py, pack.py and the "
               "snarkjs / zkinterface backend modules (fresh import per honest or shadow run); the verifier is "
               "the checker's own evaluation of every recorded constraint modulo the hard-coded prime; stub: "
               "`flatbuffers` (import only, for the zkinterface backends)")

VALUE_OPS = {"let": 10, "assert": 0, "guarded": 0, "ite_call": 0, "set_ie": 0, "val": 0, "array": 0,
             "aset": 0, "aget": 0, "fxp": 1.0, "arith": 2, "div": 6, "bits": 5, "cmp": 6, "shift": 1.5,
             "pow": 1, "unary": 3, "boolop": 3, "check": 4, "ite": 3, "tobits": 2, "tobool": 1}


def honest(plan, inputs=None):
    """Honest run with checks on; None unless it completed with no exception at all."""
    tr = PV.run_plan(plan, inputs)
    if tr.outcome != "completed" or tr.caught:
        return None
    return tr


class ProverCheck(TraceCheck):
    components = REAL_PROVER
    toggles = ()
    shadow_budget = 24
    wire_budget = 1500

    def cfg(self, rng):
        return {"backend": rng.choice(W.DICT_BACKENDS), "bitlength": rng.choice([2, 3, 3, 4, 4, 5]),
                "resolution": rng.choice([0, 1, 2]), "value_bias": "tiny", "max_nesting": 0,
                "p_try": 0.0, "p_bool_cond": 1.0, "fxp": rng.random() < 0.25}

    def attack_trace(self, case, tr, rng, viol, probes, faults):
        """Wire-mode search + shadow-mode re-runs on one honest trace; appends to viol."""
        plan = case["plan"]
        trace = PV.Trace(tr)
        base = trace.base_assignment()
        if trace.unsat(base):
            probes["honest_trace_unsat_discarded"] = probes.get("honest_trace_unsat_discarded", 0) + 1
            return trace
        atk = PV.Attack(trace, PV.plan_consts(plan))
        b = plan["cfg"]["bitlength"]
        for lies, v, a, rep in atk.search(rng, b, self.wire_budget):
            r = v[1]
            s = dict(r["desc"])
            s["mode"] = "wire"
            s["scale"] = atk.scale(v[2], b)
            s["lie_scale"] = atk.lie_scale(a, b)
            if any(x["site"] == s for x in viol):
                continue
            viol.append({"property": self.prop, "oracle": "second_assignment" if v[0] == "differs" else
                         "nonboolean_result", "site": s,
                         "detail": "lies %s (re-derived=%s) satisfy all %d constraints; %s = %d instead of %d" % (
                             {k: x for k, x in lies.items()}, rep, len(trace.cons), r["name"], v[2], r["value"])})
        faults["lie-wire"] = faults.get("lie-wire", 0) + atk.evals
        probes["rederivation_steps"] = probes.get("rederivation_steps", 0) + atk.repairs
        # shadow mode
        if not viol and trace.hints:
            npriv_in = sum(1 for o in trace.operands if o < 0)
            nsh = 0
            hint_order = list(range(len(trace.hints)))
            rng.shuffle(hint_order)
            for hi in hint_order:
                if nsh >= self.shadow_budget or viol:
                    break
                k = trace.hints[hi]
                hv = trace.priv[-k - 1]
                for cand in (hv + 1, hv - 1, 1 - hv, 0, -hv):
                    if cand == hv:
                        continue
                    if nsh >= self.shadow_budget:
                        break
                    nsh += 1
                    # hint index among PrivVal calls after the inputs = position in trace.priv minus priv inputs
                    d = PV.run_plan(plan, nocheck=True, hook=PV.shadow_hook(-k - 1 - npriv_in, cand, npriv_in))
                    if d.outcome != "completed" or d.caught:
                        probes["shadow_run_crashed"] = probes.get("shadow_run_crashed", 0) + 1
                        continue
                    dt = PV.Trace(d)
                    if dt.kinds != trace.kinds or dt.cons != trace.cons:
                        probes["shadow_run_other_circuit"] = probes.get("shadow_run_other_circuit", 0) + 1
                        continue
                    da = dt.base_assignment()
                    if any(da[o] != base[o] for o in trace.operands):
                        continue
                    faults["lie-shadow"] = faults.get("lie-shadow", 0) + 1
                    if dt.unsat(da):
                        continue
                    for r in trace.results:
                        val = dt.ev(r["lc"], da)
                        if val != r["value"] or (r["t"] == "B" and val not in (0, 1)):
                            s = dict(r["desc"])
                            s["mode"] = "shadow"
                            s["scale"] = atk.scale(val, b)
                            s["lie_scale"] = "shadow"
                            viol.append({"property": self.prop, "oracle": "second_assignment", "site": s,
                                         "detail": "shadow lie hint#%d := %d: all constraints satisfied, %s = %d "
                                                   "instead of %d" % (-k - 1 - npriv_in, cand, r["name"], val,
                                                                      r["value"])})
                            break
                    if viol:
                        break
        return trace


class C02(ProverCheck):
    name = "C02"
    prop = "C02"
    budget = {"quick": 400, "thorough": 12000}
    weights = VALUE_OPS
    rule = ("plans of 1-3 value-returning operations (every operator, the three operand-kind combinations, "
            "selection, bit round trips, boolean and fixed-point operators) at bitlength 2-5 on tiny/boundary "
            "operands; one honest run, then dishonest executions: every hint wire x ~40 candidate values "
            "(small deltas, powers of two, 0/1/-1, 1-v, -v, field quotients x*y^-1 of operand and constant "
            "values) with and without forward re-derivation of dependent hints, adjacent pairs, and shadow "
            "lies re-executed through the library; violation = all constraints satisfied with the operands "
            "unchanged and a result different (or a boolean result not 0/1). non-trivial = distinct plans "
            "with an honest satisfied trace and at least one hint wire attacked")

    def gen(self, rng, i, tier):
        cfg = self.cfg(rng)
        plan = P.generate(rng, cfg, self.weights, n_stmts=rng.choice([1, 1, 2, 3]))
        return {"plan": plan, "seed": rng.randrange(1 << 30)}

    def run(self, case):
        plan = case["plan"]
        rng = _random.Random(case["seed"])
        tr = honest(plan)
        probes, faults, viol = {}, {}, []
        if tr is None:
            return {"violations": [], "digest": "discard", "nontrivial": None, "events": 0, "faults": {},
                    "probes": {"honest_run_raised_discarded": 1}, "sigs": [], "discarded": True}
        trace = self.attack_trace(case, tr, rng, viol, probes, faults)
        nt = P.plan_digest(plan) if trace.hints and not probes.get("honest_trace_unsat_discarded") else None
        return {"violations": viol, "digest": E.sha((tr.digest_material(), [v["detail"] for v in viol],
                                                     faults, probes)),
                "nontrivial": nt, "events": tr.steps + faults.get("lie-wire", 0) + faults.get("lie-shadow", 0),
                "faults": faults, "probes": probes,
                "sigs": [E.sha((r["desc"].get("op"), r["desc"].get("kinds"), plan["cfg"]["bitlength"]))
                         for r in trace.results], "outcome": tr.outcome}


E.register(C02())
