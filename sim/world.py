"""In-process world: a fresh import of pysnark per run, with the real backend module
wrapped by a recorder that keeps its own ordered event log and assignment, and that
can inject faults at the backend seam.

Nothing in here draws random numbers or reads a clock.
"""
import atexit
import builtins
import importlib
import os
import sys

VERIF = os.path.dirname(os.path.dirname(os.path.abspath(__file__)))
REPO = os.environ.get("VERIF_REPO", "/repo")
STUBS = os.path.join(VERIF, "stubs")

BN254 = 21888242871839275222246405745257275088548364400416034343698204186575808495617
BLS12_381 = 52435875175126190479447740508185965837690552500527637822603658699938581184513
ED25519 = 7237005577332262213973186563042994240857116359379907606001950938285454250989

# scalar-field order per backend *name*, hard-coded here on purpose (C13/C19 compare the
# module's own report against this table)
PRIMES = {
    "snarkjs": BN254,
    "zkinterface": BN254,
    "zkifbellman": BLS12_381,
    "zkifbulletproofs": ED25519,
    "qaptools": BN254,
    "libsnark": BN254,
    "libsnarkgg": BN254,
}

BACKEND_MODULES = {
    "libsnark": "pysnark.libsnark.backend",
    "libsnarkgg": "pysnark.libsnark.backendgg",
    "qaptools": "pysnark.qaptools.backend",
    "snarkjs": "pysnark.snarkjsbackend",
    "zkinterface": "pysnark.zkinterface.backend",
    "zkifbellman": "pysnark.zkinterface.backendbellman",
    "zkifbulletproofs": "pysnark.zkinterface.backendbulletproofs",
    "nobackend": "pysnark.nobackend",
}

DICT_BACKENDS = ("snarkjs", "zkinterface", "zkifbellman", "zkifbulletproofs")


class InjectedFault(Exception):
    """Fault raised by the simulator at a seam or a statement boundary."""


class InjectedInterrupt(BaseException):
    """Same, but not an Exception subclass (the analogue of KeyboardInterrupt)."""


class HarnessError(Exception):
    pass


def purge_pysnark():
    for k in list(sys.modules):
        if k == "pysnark" or k.startswith("pysnark."):
            del sys.modules[k]


def ensure_paths(need_flatbuffers=False):
    if REPO not in sys.path:
        sys.path.insert(0, REPO)
    if need_flatbuffers:
        p = os.path.join(STUBS, "py")
        if p not in sys.path:
            sys.path.insert(1, p)


def canon_lc(lc, p):
    """Canonical form of a dict-style linear combination: sorted ((index, coeff mod p)),
    zero coefficients dropped."""
    out = []
    for k in sorted(lc):
        c = lc[k] % p
        if c:
            out.append((k, c))
    return tuple(out)


class Recorder:
    """Event log + own assignment for the dict-style backends (snarkjs, zkinterface*)."""

    def __init__(self, name):
        self.name = name
        self.p = PRIMES[name]
        self.pub = []        # values in creation order
        self.priv = []
        self.cons = []       # (A, B, C) each a dict copy taken at call time
        self.cons_live = []  # the live LC objects handed to the backend (for mutation checks)
        self.events = []     # ("pub", v) | ("priv", v) | ("con", idx)
        self.seam_calls = 0
        self.abort_at = None     # seam call number that raises
        self.abort_exc = InjectedFault
        self.abort_fired = 0
        self.abort_site = None
        self.abort_in = []
        self.trace_frames = ()      # function names whose seam calls are to be located (fault targeting)
        self.frame_hits = {}
        self.lie = None          # callable(kind, index, value) -> value or None (proversim, wire mode)
        self.checked_cons = 0    # how many constraints the incremental checker has seen
        self.cons_flags = []     # per constraint: True if emitted while the *plan* had ignore_errors on
        self.user_nocheck = False

    # -- seam ---------------------------------------------------------------------------
    def _seam(self, site):
        self.seam_calls += 1
        if self.trace_frames:
            f = sys._getframe(2)
            depth = 0
            while f is not None and depth < 40:
                if f.f_code.co_name in self.trace_frames and f.f_code.co_filename.endswith(("branching.py", "runtime.py")):
                    self.frame_hits.setdefault(f.f_code.co_name, []).append(self.seam_calls)
                f = f.f_back
                depth += 1
        if self.abort_at is not None and self.seam_calls == self.abort_at:
            self.abort_fired += 1
            self.abort_site = site
            # which library functions is the fault landing in? (reach probes)
            f = sys._getframe(2)
            names = set()
            depth = 0
            while f is not None and depth < 40:
                fn = f.f_code.co_filename
                if fn.endswith("runtime.py") or fn.endswith("branching.py") or fn.endswith("array.py"):
                    names.add(f.f_code.co_name)
                f = f.f_back
                depth += 1
            self.abort_in = sorted(names & {"add_guard", "exit", "enter", "__guarded", "if_then_else", "add_constraint",
                                            "to_bits", "check_positive", "check_zero", "__divmod__", "__getitem__",
                                            "__setitem__", "_while", "_elif", "_else", "end"})
            raise self.abort_exc("injected fault at seam call %d (%s)" % (self.seam_calls, site))

    def val_of(self, idx):
        if idx == 0:
            return 1
        if idx > 0:
            return self.pub[idx - 1]
        return self.priv[-idx - 1]

    def ev(self, lc):
        """Evaluate a dict-style LC on the recorder's own assignment, mod p."""
        s = 0
        for k, c in lc.items():
            s += c * self.val_of(k)
        return s % self.p

    def con_ok(self, i):
        a, b, c = self.cons[i]
        return (self.ev(a) * self.ev(b) - self.ev(c)) % self.p == 0

    def unsat(self, start=0):
        return [i for i in range(start, len(self.cons)) if not self.con_ok(i)]

    def canon_cons(self):
        return [tuple(canon_lc(x, self.p) for x in c) for c in self.cons]

    def kinds(self):
        return "".join("P" if e[0] == "pub" else "w" if e[0] == "priv" else "c" for e in self.events)


def install_recorder(backend_mod, rec):
    """Wrap the real backend module's seam functions. The real functions still run."""
    real_priv = backend_mod.privval
    real_pub = backend_mod.pubval
    real_add = backend_mod.add_constraint

    def privval(val):
        rec._seam("privval")
        v = val
        if rec.lie is not None:
            nv = rec.lie("wire", len(rec.priv), val)
            if nv is not None:
                v = nv
        rec.priv.append(v)
        rec.events.append(("priv", v))
        return real_priv(v)

    def pubval(val):
        rec._seam("pubval")
        rec.pub.append(val)
        rec.events.append(("pub", val))
        return real_pub(val)

    def add_constraint(v, w, y):
        rec._seam("add_constraint")
        rec.cons.append((dict(v.lc), dict(w.lc), dict(y.lc)))
        rec.cons_live.append((v, w, y))
        rec.cons_flags.append(rec.user_nocheck)
        rec.events.append(("con", len(rec.cons) - 1))
        return real_add(v, w, y)

    backend_mod.privval = privval
    backend_mod.pubval = pubval
    backend_mod.add_constraint = add_constraint
    backend_mod.__verif_real__ = (real_priv, real_pub, real_add)


class World:
    """One fresh import of pysnark with the named backend, recorder installed."""

    def __init__(self, backend="snarkjs", bitlength=None, resolution=None, record=True, late_modulus=None):
        self.backend_name = backend
        need_fb = backend.startswith("zk")
        ensure_paths(need_fb)
        purge_pysnark()
        os.environ["PYSNARK_BACKEND"] = backend
        real_register = atexit.register
        saved = (sys.exit, sys.excepthook)
        self.exit_hooks = []

        def collect(fn, *a, **k):
            self.exit_hooks.append(fn)
            return fn

        atexit.register = collect
        try:
            self.runtime = importlib.import_module("pysnark.runtime")
            self.boolean = importlib.import_module("pysnark.boolean")
            self.fixedpoint = importlib.import_module("pysnark.fixedpoint")
            self.branching = importlib.import_module("pysnark.branching")
            self.array = importlib.import_module("pysnark.array")
            self.pack = importlib.import_module("pysnark.pack")
        finally:
            atexit.register = real_register
            sys.exit, sys.excepthook = saved
        rt = self.runtime
        if rt.backend_name != backend:
            raise HarnessError("backend %r requested, runtime selected %r" % (backend, rt.backend_name))
        self.backend = rt.backend
        self.rec = None
        if record and backend in DICT_BACKENDS:
            self.rec = Recorder(backend)
            install_recorder(self.backend, self.rec)
        if late_modulus is not None:
            # the field is switched through the backend's public setter after everything has been imported
            self.backend.set_modulus(late_modulus)
            if self.rec is not None:
                self.rec.p = late_modulus
        if bitlength is not None:
            rt.bitlength = bitlength
        if resolution is not None:
            self.fixedpoint.resolution = resolution
        self.initial = (rt.guard, rt._ignore_errors, rt.LinComb.ONE)

    # -- helpers used by oracles -------------------------------------------------------
    def lc_of(self, obj):
        """The runtime.LinComb behind any secret-typed object, or None."""
        rt = self.runtime
        if isinstance(obj, rt.LinComb):
            return obj
        if isinstance(obj, (self.boolean.LinCombBool, self.fixedpoint.LinCombFxp)):
            return obj.lc
        return None

    def value_matches_wire(self, obj):
        lc = self.lc_of(obj)
        if lc is None:
            return True
        return lc.value % self.rec.p == self.rec.ev(lc.lc.lc)


def walk_secrets(world, obj, path, out, depth=0):
    """Collect (path, LinComb) for every secret object reachable through lists, tuples,
    dicts and Array objects."""
    if depth > 6:
        return
    lc = world.lc_of(obj)
    if lc is not None:
        out.append((path, lc))
        return
    if isinstance(obj, (list, tuple)):
        for i, x in enumerate(obj):
            walk_secrets(world, x, "%s[%d]" % (path, i), out, depth + 1)
    elif isinstance(obj, dict):
        for k in obj:
            walk_secrets(world, obj[k], "%s[%r]" % (path, k), out, depth + 1)
    elif isinstance(obj, world.array.Array):
        walk_secrets(world, obj.arr, path + ".arr", out, depth + 1)
