"""tracesim: execute one plan in a fresh in-process world, with invariants evaluated at
every quiescent point and faults injected at the backend seam / statement boundaries.
"""
import gc
import linecache
import sys
import traceback

from . import world as W
from .plan import CodeGen

VALUE_ERRORS = (ValueError, AssertionError, IndexError, ArithmeticError)


class Violation(dict):
    """{'property', 'oracle', 'site': {...}, 'detail': str}"""


def vio(prop, oracle, site, detail=""):
    return Violation(property=prop, oracle=oracle, site=site, detail=detail)


class TraceRun:
    def __init__(self, plan, faults=None, inputs=None, props=("C01", "C04", "C08"), world_hook=None,
                 mode="traced"):
        self.mode = mode
        self.plan = plan
        self.faults = faults or {}
        self.inputs = inputs if inputs is not None else [i["v"] for i in plan["inputs"]]
        self.props = set(props)
        self.world_hook = world_hook
        self.violations = []
        self.caught = []           # (site, class name, message prefix)
        self.caught_ctx = []       # (site, class name, dead?, depth)
        self.region_dead = {}      # (rid, branch) -> executed under a false effective guard
        self.tracked = {}
        self.open_blocks = 0
        self.want_snapshots = False
        self.snapshots = []
        self.exc_plan_line = None
        self.exc_lib_frames = []
        self.calls = {}
        self.region_vars = {}
        self.type_leak = False
        self.nonbool_guard = False
        self.rets = []
        self.alt_inputs = None
        self.outcome = None        # "completed" | "raised:<cls>"
        self.outcome_msg = ""
        self.steps = 0
        self.snap = []             # region snapshot stack: (rid, guard, ie, ONE, model_user_ie)
        self.user_ie = False
        self.ie_cur = False        # expected runtime._ignore_errors
        self.cur_desc = None       # description of the statement just executed
        self.probes = {}
        self.state_sigs = set()
        self.finals = {}
        self.final_is_bool = set()    # names (finals and region variables) whose object is a LinCombBool
        self.src = None
        self.gen = None
        self.w = None
        self.leak_reported = False
        self.pending_gc = False
        self.c04_reported = False
        self.pack_info, self.pack_out, self.extra_finals = {}, {}, {}
        self.marks = []            # (site, #events) at every step

    # -- probes
    def probe(self, name, n=1):
        self.probes[name] = self.probes.get(name, 0) + n

    # -- callbacks from generated code ------------------------------------------------------
    def cb_cv(self, c):
        lc = self.w.lc_of(c)
        v = lc.value if lc is not None else int(c)
        if v != 0 and v != 1:
            self.nonbool_guard = True
        return 1 if v == 1 else (0 if v == 0 else v)

    def cb_valret(self, obj, ret):
        """x.val() hands back a plain value: it has to be the value of x (C04: in every mode, also under a false guard)."""
        lc = self.w.lc_of(obj)
        if lc is None or "C04" not in self.props:
            return
        self.probe("val_returned")
        want = lc.value
        if isinstance(obj, self.w.fixedpoint.LinCombFxp):
            ok = isinstance(ret, float) and abs(ret * (1 << self.w.fixedpoint.resolution) - want) < 1e-6 * max(1, abs(want))
        else:
            ok = (not isinstance(ret, float)) and ret is not None and int(ret) == want
        if not ok and not self.c04_reported:
            self.c04_reported = True
            self.violations.append(vio("C04", "val_ne_value", {"op": "val", "dead": self.ctx_flags_now().get("dead")},
                                       "val() returned %r, the object's value is %r" % (ret, want)))

    def ctx_flags_now(self):
        rt = self.w.runtime
        g = self.w.lc_of(rt.guard) if rt.guard is not None else None
        return {"dead": bool(g is not None and g.value == 0)}

    def cb_set_ie(self, v):
        self.w.runtime.ignore_errors(v)
        self.user_ie = v
        self.ie_cur = v
        self.w.rec.user_nocheck = v
        self.probe("set_ie")

    def cb_enter(self, rid):
        rt = self.w.runtime
        self.snap.append((rid, rt.guard, rt._ignore_errors, rt.LinComb.ONE, self.user_ie, self.ie_cur))

    def cb_leave(self, rid):
        rt = self.w.runtime
        srid, g, ie, one, uie, iec = self.snap.pop()
        while srid != rid and self.snap:
            # an exception left a block of the block API open inside this region (no finally there): its entry goes too
            srid, g, ie, one, uie, iec = self.snap.pop()
        exc = sys.exc_info()[0]
        if exc is not None:
            self.pending_gc = True
        how = "return" if exc is None else "exception"
        self.probe("region_left_by_" + how)
        if exc is not None and len(self.snap) >= 1:
            self.probe("exception_left_nested_region")
        if "C08" in self.props:
            bad = []
            if rt.guard is not g:
                bad.append("guard")
            if rt._ignore_errors != ie:
                bad.append("ignore_errors")
            if rt.LinComb.ONE is not one:
                bad.append("ONE")
            if bad:
                self.violations.append(vio("C08", "guard_leak",
                                           {"how": how, "fields": "+".join(bad), "depth": len(self.snap) + 1,
                                            "exc": exc.__name__ if exc else None},
                                           "after region %d left by %s: %s not restored" % (rid, how, bad)))
        self.user_ie = uie
        self.ie_cur = iec
        self.w.rec.user_nocheck = uie

    def cb_packinfo(self, n, packer, bits):
        self.pack_info[n] = {"bitlen": packer.bitlen(), "nbits": len(bits),
                             "secret_bits": sum(1 for b in bits if self.w.lc_of(b) is not None)}

    def cb_packout(self, n, out):
        flat = []

        def walk(x):
            if isinstance(x, (list, tuple)):
                for y in x:
                    walk(y)
            else:
                flat.append(x)
        walk(out)
        vals = []
        for j, x in enumerate(flat):
            lc = self.w.lc_of(x)
            if lc is not None:
                vals.append(lc.value)
                self.extra_finals["_po%d[%d]" % (n, j)] = (lc.value, W.canon_lc(lc.lc.lc, self.w.rec.p))
                self.gen.origin["_po%d[%d]" % (n, j)] = {"op": "unpack", "t": "I"}
            else:
                vals.append(x)
        self.pack_out[n] = vals

    def cb_prove(self):
        """An explicit backend.prove() in the middle of the script (checkpoint), into a throw-away directory."""
        import contextlib, io, os, shutil, tempfile
        d = tempfile.mkdtemp(prefix="ckpt-")
        old = os.getcwd()
        os.chdir(d)
        try:
            buf = io.StringIO()
            with contextlib.redirect_stdout(buf), contextlib.redirect_stderr(buf):
                self.w.backend.prove()
        finally:
            os.chdir(old)
            shutil.rmtree(d, ignore_errors=True)
        self.probe("checkpoint_prove")

    def cb_ret(self, vals):
        self.rets.append({nm: snapshot_values(v, self.w.lc_of) for nm, v in vals.items()})

    def cb_set_res(self, r):
        self.w.fixedpoint.resolution = r
        self.probe("resolution_changed_mid_run")

    def cb_set_bl(self, b):
        self.w.runtime.bitlength = b
        self.probe("bitlength_changed_mid_run")

    def cb_poseidon(self, xs):
        """Traced Poseidon sponge of the given secrets (zkinterface fields only; elsewhere the module refuses
        to load, which the plan sees as a NotImplementedError of that statement)."""
        import importlib
        ph = importlib.import_module("pysnark.poseidon_hash")
        self.probe("poseidon_hash_traced")
        return ph.poseidon_hash(list(xs))

    def cb_callstart(self, n):
        self.calls[n] = {"ev0": len(self.w.rec.events), "mark0": len(self.marks)}

    def cb_callend(self, n, ret):
        c = self.calls[n]
        c["ev1"] = len(self.w.rec.events)
        c["ret"] = snapshot_values(ret) if not isinstance(ret, dict) else ret
        c["ret"] = _plain(ret)

    def cb_caught(self, site, e, model=()):
        cls = type(e).__name__
        self.caught.append((site, cls, str(e)[:60]))
        self.probe("caught_" + cls)
        flat = [x for m in model for x in m]
        dead = any(x == 0 for x in flat)
        self.caught_ctx.append((site, cls, dead, len(model)))
        plain_index = isinstance(e, IndexError) and str(e).startswith("list ")   # public index: the script's own bug
        if dead and "C07" in self.props and isinstance(e, VALUE_ERRORS) and not plain_index:
            info = self.gen.sites.get(site, {})
            s = dict(info.get("desc") or {})
            s["exc"] = cls
            self.violations.append(vio("C07", "raised_in_dead_region", s,
                                       "%s(%s) raised under a false guard" % (cls, str(e)[:80])))

    def cb_step(self, site, loc, model):
        self.steps += 1
        if self.pending_gc and self.gen.local_blocks:
            # abandoned block-variable objects (reference cycles) are collected at a fixed point of the schedule
            self.pending_gc = False
            gc.collect()
        info = self.gen.sites.get(site, {})
        if "desc" in info:
            self.cur_desc = info["desc"]
        if info.get("kind") == "region_entry" and model and info.get("rstack"):
            self.region_dead[info["rstack"][-1]] = any(x == 0 for m in model for x in m)
        if info.get("kind") == "region_entry" and model:
            base = self.snap[-1][5] if self.snap else self.ie_cur
            self.ie_cur = bool(base) or any(x == 0 for x in model[-1])
            if self.snap:
                # the second branch of an if_then_else starts from the state at entry, whatever the first branch
                # switched (restore_guard put it back)
                self.user_ie = self.snap[-1][4]
                self.w.rec.user_nocheck = self.user_ie
            self.cur_desc = {"op": "add_guard"}
        if self.faults.get("abort_stmt") == site:
            self.probe("abort_stmt_fired")
            self.check_point(site, loc, model, info)
            raise W.InjectedFault("injected fault at statement site %d" % site)
        self.check_point(site, loc, model, info)
        self.marks.append((site, len(self.w.rec.events)))
        if info.get("var") and info.get("kind") in ("let", "after_region", "subqap_call", "importcomm"):
            v = loc.get(info["var"])
            if v is not None and self.w.lc_of(v) is None and info["var"][1] in "IBF":
                # the library handed back a plain Python value where the plan expects a secret (e.g. a shift by
                # the whole width returns the int 0): later statements would then exercise plain-Python semantics
                # and static errors, which no property is about -> the run is not judged
                self.type_leak = True
                self.probe("plain_value_in_secret_typed_variable")
        if model and info.get("var") and info.get("rstack"):
            v = loc.get(info["var"])
            lc = self.w.lc_of(v)
            if lc is not None:
                self.region_vars[(info["var"], tuple(info["rstack"]))] = (lc.value, W.canon_lc(lc.lc.lc, self.w.rec.p))
        if self.want_snapshots:
            self.snapshots.append((site, {nm: snapshot_values(v, self.w.lc_of) for nm, v in loc.items()
                                          if nm[:2] in ("vI", "vB", "vA") and nm[2:].isdigit()}))

    # -- oracles -----------------------------------------------------------------------
    def ctx_flags(self, model):
        flat = [x for m in model for x in m]
        dead = any(x == 0 for x in flat)
        return {"dead": dead, "depth": len(model), "nocheck": bool(self.user_ie)}

    def check_point(self, site, loc, model, info):
        w = self.w
        rec = w.rec
        rt = w.runtime
        flags = self.ctx_flags(model)
        if any(x not in (0, 1) for m in model for x in m):
            # a "condition" that is not 0/1 (only constructible with error checking switched off): outside the
            # guard values the properties quantify over
            self.nonbool_guard = True
        self.state_sigs.add((info.get("kind"), flags["depth"], tuple(tuple(m) for m in model),
                             flags["nocheck"], (self.cur_desc or {}).get("op")))
        if not model and rt.guard is not None:
            # inside a block-API region (the guard model of those is not tracked statically)
            g = w.lc_of(rt.guard)
            self.probe("step_in_block_region")
            if g is not None and g.value == 0:
                self.probe("step_under_false_block_guard")
        if flags["dead"]:
            self.probe("step_in_dead_region")
        if flags["depth"] >= 2:
            self.probe("step_at_depth_ge2")
            flat = [x for m in model for x in m]
            if 0 in flat and 1 in flat:
                self.probe("nested_mixed_guard_values")
        # C01: new constraints satisfied
        if "C01" in self.props:
            for i in range(rec.checked_cons, len(rec.cons)):
                if rec.cons_flags[i]:
                    self.probe("constraint_exempt_user_nocheck")
                    continue
                if not rec.con_ok(i):
                    s = dict(self.cur_desc or {})
                    s.update({"dead": flags["dead"], "guarded": flags["depth"] > 0})
                    self.violations.append(vio("C01", "unsat_constraint", s,
                                               "constraint %d not satisfied after site %d" % (i, site)))
        rec.checked_cons = len(rec.cons)
        # C04: value == wire for all visible objects
        if "C04" in self.props:
            objs = []
            for nm, v in list(loc.items()):
                if nm.startswith("v") or nm.startswith("_t"):
                    W.walk_secrets(w, v, nm, objs)
            for path, lc in objs:
                if lc.value % rec.p != rec.ev(lc.lc.lc):
                    nm = path.split("[")[0].split(".")[0]
                    s = dict(self.gen.origin.get(nm, {}))
                    s.update({"dead": flags["dead"], "nocheck": flags["nocheck"]})
                    if not self.c04_reported:
                        # only the earliest mismatch of a run is a root cause; later ones may derive from it
                        self.c04_reported = True
                        self.violations.append(vio("C04", "value_ne_wire", s,
                                                   "%s: value %d != wire %d" % (path, lc.value % rec.p,
                                                                                   rec.ev(lc.lc.lc))))
        # C08: guard model
        if "C08" in self.props:
            self.check_guard_model(model, flags, site)

    def check_guard_model(self, model, flags, site):
        rt = self.w.runtime
        rec = self.w.rec
        flat = [x for m in model for x in m]
        depth = len(model)
        if depth == 0 or not flat:
            # top level, or only regions with a PUBLIC true condition around (they install no guard)
            g0, ie0, one0 = self.w.initial
            bad = []
            if rt.guard is not g0:
                bad.append("guard")
            if rt.LinComb.ONE is not rt.LinComb.ONE_SAFE:
                bad.append("ONE")
            if bool(rt._ignore_errors) != bool(self.user_ie):
                bad.append("ignore_errors")
            if bad and not self.leak_reported:
                self.leak_reported = True
                self.violations.append(vio("C08", "guard_leak", {"how": "toplevel", "fields": "+".join(bad)},
                                           "at top-level site %d: %s differ from initial" % (site, bad)))
            return
        if any(x not in (0, 1) for x in flat):
            self.probe("non_boolean_guard_value")
            return
        expect = 1
        for x in flat:
            expect *= x
        g = rt.guard
        if g is None:
            self.violations.append(vio("C08", "guard_not_conjunction", {"depth": depth, "got": "None"},
                                       "inside %d regions guard is None" % depth))
            return
        glc = self.w.lc_of(g)
        if glc.value != expect or rec.ev(glc.lc.lc) != expect % rec.p:
            self.violations.append(vio("C08", "guard_not_conjunction",
                                       {"depth": depth, "expect": expect, "got": glc.value},
                                       "guard value %r / wire %r, conjunction of %r is %d" % (
                                           glc.value, rec.ev(glc.lc.lc), flat, expect)))
        if rt.LinComb.ONE is not g:
            self.violations.append(vio("C08", "guard_not_conjunction", {"depth": depth, "field": "ONE"},
                                       "inside region LinComb.ONE is not the guard"))
        if bool(rt._ignore_errors) != bool(self.ie_cur):
            self.violations.append(vio("C08", "guard_not_conjunction",
                                       {"depth": depth, "field": "ignore_errors"},
                                       "inside region _ignore_errors=%r, expected %r" % (
                                           rt._ignore_errors, self.ie_cur)))

    # -- run -----------------------------------------------------------------------------
    def run(self):
        cfg = self.plan["cfg"]
        self.w = W.World(cfg["backend"], cfg.get("bitlength"), cfg.get("resolution"),
                         late_modulus=cfg.get("late_modulus"))
        w = self.w
        rec = w.rec
        if self.world_hook:
            self.world_hook(self)
        if "abort_seam" in self.faults:
            rec.abort_at = rec.seam_calls + self.faults["abort_seam"]
            if self.faults.get("abort_exc") == "interrupt":
                rec.abort_exc = W.InjectedInterrupt
        self.gen = CodeGen(self.plan, self.mode)
        self.src = self.gen.generate()
        rt = w.runtime
        g = {
            "PrivVal": rt.PrivVal, "PubVal": rt.PubVal, "ConstVal": rt.ConstVal, "LinComb": rt.LinComb,
            "guarded": rt.guarded,
            "PrivValBool": w.boolean.PrivValBool, "PubValBool": w.boolean.PubValBool,
            "LinCombBool": w.boolean.LinCombBool,
            "PrivValFxp": w.fixedpoint.PrivValFxp, "PubValFxp": w.fixedpoint.PubValFxp,
            "LinCombFxp": w.fixedpoint.LinCombFxp,
            "if_then_else": w.branching.if_then_else, "Array": w.array.Array,
            "__zero__": rt.ConstVal(0), "__poseidon__": self.cb_poseidon, "__inputs__": self.inputs,
            "__E__": PlanEnum, "__ret__": self.cb_ret, "__alt__": self.alt_inputs, "__valret__": self.cb_valret,
            "__ext__": lambda nm, v: self.tracked.__setitem__("ext." + nm, snapshot_values(v, self.w.lc_of)),
            "__set_res__": self.cb_set_res, "__set_bl__": self.cb_set_bl, "__prove__": self.cb_prove,
            "__step__": self.cb_step, "__enter__": self.cb_enter,
            "__leave__": self.cb_leave, "__caught__": self.cb_caught, "__set_ie__": self.cb_set_ie,
            "__cv__": self.cb_cv, "__CAUGHT__": (Exception, W.InjectedInterrupt),
            "__packinfo__": self.cb_packinfo, "__packout__": self.cb_packout,
            "PackBool": w.pack.PackBool, "PackIntMod": w.pack.PackIntMod, "PackList": w.pack.PackList,
            "PackRepeat": w.pack.PackRepeat,
            "BranchingValues": w.branching.BranchingValues, "_if": w.branching._if, "_elif": w.branching._elif,
            "_else": w.branching._else, "_endif": w.branching._endif, "_while": w.branching._while,
            "_endwhile": w.branching._endwhile, "_breakif": w.branching._breakif, "_range": w.branching._range,
            "_endfor": w.branching._endfor, "snark": rt.snark, "__flat__": flat_leaves,
            "__callstart__": self.cb_callstart, "__callend__": self.cb_callend,
            "__name__": "__plan__",
        }
        fname = "<plan>"
        linecache.cache[fname] = (len(self.src), None, self.src.splitlines(True), fname)
        code = compile(self.src, fname, "exec")
        old_unraisable = sys.unraisablehook
        if self.gen.local_blocks:
            sys.unraisablehook = lambda u: None    # "unclosed branches left" of an abandoned BranchingValues object
        try:
            exec(code, g)
            self.outcome = "completed"
        except (Exception, W.InjectedInterrupt) as e:
            self.outcome = "raised:" + type(e).__name__
            self.outcome_msg = str(e)[:200]
            self.tb = traceback.format_exc(limit=6)
            # where the exception left the script and which library functions it passed through
            self.exc_plan_line = None
            self.exc_lib_frames = []
            tb = e.__traceback__
            while tb is not None:
                co = tb.tb_frame.f_code
                if co.co_filename == fname:
                    self.exc_plan_line = tb.tb_lineno
                elif co.co_filename.endswith("branching.py") or co.co_filename.endswith("runtime.py"):
                    self.exc_lib_frames.append(co.co_name)
                tb = tb.tb_next
        self.globals = g
        if self.gen.local_blocks:
            gc.collect()
            sys.unraisablehook = old_unraisable
        if rec.abort_fired:
            self.probe("abort_seam_fired")
            self.probe("abort_seam_at_" + str(rec.abort_site))
            for nm in rec.abort_in:
                self.probe("abort_inside_" + nm.strip("_"))
            if "add_constraint" in rec.abort_in and rec.abort_site == "add_constraint" and rt.guard is None:
                pass
        self.final_checks()
        return self

    def final_checks(self):
        w = self.w
        rec = w.rec
        rt = w.runtime
        # leftover snapshot entries mean the script ended inside a region through an exception
        # that __leave__ has already judged (finally), so the stack must be empty here
        if "C08" in self.props:
            g0, ie0, one0 = w.initial
            bad = []
            if rt.guard is not g0:
                bad.append("guard")
            if rt.LinComb.ONE is not rt.LinComb.ONE_SAFE:
                bad.append("ONE")
            if bool(rt._ignore_errors) != bool(self.user_ie):
                bad.append("ignore_errors")
            if bad and not self.leak_reported:
                self.violations.append(vio("C08", "guard_leak",
                                           {"how": "end", "fields": "+".join(bad), "outcome": self.outcome.split(":")[0]},
                                           "at end of run (%s): %s differ from initial" % (self.outcome, bad)))
        if "C01" in self.props and self.outcome == "completed":
            # full re-evaluation from the live LC objects handed to the backend
            for i, (a, b, c) in enumerate(rec.cons_live):
                if rec.cons_flags[i]:
                    continue
                if (rec.ev(a.lc) * rec.ev(b.lc) - rec.ev(c.lc)) % rec.p != 0 and rec.con_ok(i):
                    self.violations.append(vio("C13", "operand_mutated", {"where": "constraint"},
                                               "constraint %d changed after emission" % i))
        self.finals.update(self.extra_finals)
        ctx = self.globals.get("_")
        if isinstance(ctx, w.branching.BranchingValues):
            for nm, v in ctx.vals.items():
                lc = w.lc_of(v)
                self.tracked[nm] = snapshot_values(v, w.lc_of)
                if lc is not None:
                    self.finals["_." + nm] = (lc.value, W.canon_lc(lc.lc.lc, rec.p))
                    if isinstance(v, w.boolean.LinCombBool):
                        self.final_is_bool.add("_." + nm)
            self.open_blocks = len(ctx.stack)
            ctx.stack.clear()      # keep BranchingValues.__del__ quiet
        # collect final top-level variables
        for nm, v in self.globals.items():
            if nm[:2] in ("vI", "vB", "vF") and nm[2:].isdigit():
                lc = w.lc_of(v)
                if lc is not None:
                    self.finals[nm] = (lc.value, W.canon_lc(lc.lc.lc, rec.p))
                    if isinstance(v, w.boolean.LinCombBool):
                        self.final_is_bool.add(nm)

    # -- summaries
    def digest_material(self):
        rec = self.w.rec
        return (self.outcome, rec.kinds(), tuple(rec.pub), tuple(rec.priv), tuple(rec.canon_cons()),
                tuple(sorted(self.finals.items())), tuple(self.caught),
                tuple((v["property"], v["oracle"], tuple(sorted((k, str(x)) for k, x in v["site"].items())))
                      for v in self.violations))


import enum


class PlanEnum(enum.IntEnum):
    A = 3
    B = 7
    C = 0


def flat_leaves(x, out=None):
    """Leaves of nested lists / tuples / dicts in traversal order (dict values in key order of insertion)."""
    if out is None:
        out = []
    if isinstance(x, (list, tuple)):
        for y in x:
            flat_leaves(y, out)
    elif isinstance(x, dict):
        for k in x:
            flat_leaves(x[k], out)
    else:
        out.append(x)
    return out


def _plain(x):
    if isinstance(x, list):
        return ["list"] + [_plain(y) for y in x]
    if isinstance(x, tuple):
        return ["tuple"] + [_plain(y) for y in x]
    if isinstance(x, dict):
        return ["dict"] + [[k, _plain(x[k])] for k in x]
    if isinstance(x, bool):
        return int(x)
    if isinstance(x, int):
        return int(x)
    if isinstance(x, float):
        return x
    return "<%s>" % type(x).__name__


class S(int):
    """A 'secret' plain integer of the native twin (so that a list model can tell secret from public
    indices); arithmetic on it gives plain ints."""


class NArray:
    """Python-list reference model of pysnark.array.Array."""

    def __init__(self, vals):
        self.arr = list(vals.arr) if isinstance(vals, NArray) else list(vals)

    def _ix(self, i):
        if isinstance(i, S):
            if i < 0 or i >= len(self.arr):
                raise IndexError("secret index out of range")
            return int(i)
        return i

    def __getitem__(self, item):
        if isinstance(item, tuple) and len(item) == 1:
            item = item[0]
        if isinstance(item, tuple):
            return self[item[0]][item[1:]]
        r = self.arr[self._ix(item)]
        if isinstance(r, NArray) and isinstance(item, S):
            return NRow(r)
        return r

    def __setitem__(self, item, value):
        if isinstance(item, tuple) and len(item) == 1:
            item = item[0]
        if isinstance(item, tuple):
            it = self[item[0]]
            if isinstance(it, NRow):
                it = NArray(it)
            it[item[1:]] = value
            self[item[0]] = it
            return
        if isinstance(item, S):
            # a write at a secret index recomputes every position by selection: rows become fresh arrays
            i = self._ix(item)
            # (selection between an object and itself returns that very object - also mirrored here)
            new = []
            for j, r in enumerate(self.arr):
                if value is r:
                    new.append(r)
                elif j == i:
                    new.append(_ndeep(value))
                else:
                    new.append(_ndeep(r))
            self.arr = new
            return
        self.arr[self._ix(item)] = value


def _ndeep(x):
    """Selection between arrays computes every element anew, at every depth."""
    if isinstance(x, NArray):
        return NArray([_ndeep(y) for y in x.arr])
    return x


def _nadd(self, other):
    if isinstance(other, NArray):
        return NArray([a + b for a, b in zip(self.arr, other.arr)])
    return NArray([a + other for a in self.arr])


def _nmul(self, other):
    return NArray([other * a for a in self.arr])


NArray.__add__ = _nadd
NArray.__radd__ = _nadd
NArray.__mul__ = _nmul
NArray.__rmul__ = _nmul


class NRow(NArray):
    def __init__(self, base):
        self.arr = [_ndeep(y) for y in base.arr]     # a row read at a secret index is a value, not a view

    def __setitem__(self, item, value):
        raise TypeError("Cannot set value in a returned array row")


def snapshot_values(obj, lc_of=None):
    """Plain nested-list view of a variable (native or traced)."""
    if lc_of is not None:
        lc = lc_of(obj)
        if lc is not None:
            return lc.value
    if isinstance(obj, NArray) or (hasattr(obj, "arr") and not isinstance(obj, (int, float))):
        return [snapshot_values(x, lc_of) for x in obj.arr]
    if isinstance(obj, (list, tuple)):
        return [snapshot_values(x, lc_of) for x in obj]
    if isinstance(obj, bool):
        return int(obj)
    if isinstance(obj, int):
        return int(obj)
    return obj


def run_native(plan, inputs=None, snapshots=None, alt=None):
    """Native-control-flow twin of a block-API plan: plain ints, native if/while/for.
    Returns (outcome, {tracked name: value})."""
    from .plan import CodeGen
    gen = CodeGen(plan, "native")
    src = gen.generate()
    ident = lambda v: v
    caught = []
    calls = {}
    rets = []
    ext = {}

    def step(k, loc, model):
        if snapshots is not None:
            snapshots.append((k, {nm: snapshot_values(v) for nm, v in loc.items()
                                  if nm[:2] in ("vI", "vB", "vA") and nm[2:].isdigit()}))
    g = {"PrivVal": S, "PubVal": S, "PrivValBool": int, "PubValBool": int, "PrivValFxp": float,
         "PubValFxp": float, "__inputs__": inputs if inputs is not None else [i["v"] for i in plan["inputs"]],
         "__step__": step, "__caught__": lambda k, e, m=(): caught.append((k, type(e).__name__)),
         "__CAUGHT__": Exception, "Array": NArray, "__flat__": flat_leaves, "__zero__": 0, "__E__": PlanEnum,
         "__set_res__": lambda r: None, "__set_bl__": lambda b: None,
         "__ret__": lambda vals: rets.append({nm: snapshot_values(v) for nm, v in vals.items()}), "__alt__": alt,
         "__callend__": lambda n, ret: calls.__setitem__(n, _plain(ret)),
         "__enter__": lambda *a: None, "__leave__": lambda *a: None,
         "__ext__": lambda nm, v: ext.__setitem__("ext." + nm, snapshot_values(v)),
         # regions under a (plain) condition: the body runs iff the condition is 1
         "__cv__": lambda c: int(c), "guarded": lambda c: (lambda f: (lambda: f() if int(c) == 1 else None))}
    try:
        exec(compile(src, "<native>", "exec"), g)
        outcome = "completed"
    except Exception as e:
        outcome = "raised:" + type(e).__name__
    run_native.last_caught = caught
    run_native.last_calls = calls
    run_native.last_rets = rets
    return outcome, dict({k[2:]: snapshot_values(v) for k, v in g.items() if k.startswith("T_")}, **ext), src
