"""Minimal fake of the `libsnark` Python bindings: just enough for pysnark/libsnark/backend.py
to be imported, selected and fed allocations and constraints (C19).  Nothing is proven."""
