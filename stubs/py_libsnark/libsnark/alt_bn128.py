_P = 21888242871839275222246405745257275088548364400416034343698204186575808495617


class ProtoboardPub(object):
    def __init__(self):
        self.vals = {}
        self.public = []
        self.constraints = []
        self.n = 0

    def setval(self, v, val):
        self.vals[v.idx] = val % _P

    def setpublic(self, v):
        self.public.append(v.idx)

    def add_r1cs_constraint(self, c):
        self.constraints.append(c)

    def num_constraints(self):
        return len(self.constraints)


class PbVariable(object):
    def __init__(self):
        self.idx = None

    def allocate(self, pb):
        pb.n += 1
        self.idx = pb.n


class LinearCombination(object):
    def __init__(self, x=None):
        self.terms = {}
        if isinstance(x, PbVariable):
            self.terms[x.idx] = 1
        elif isinstance(x, int):
            self.terms[0] = x % _P

    def _combine(self, other, sign):
        r = LinearCombination()
        r.terms = dict(self.terms)
        for k, c in other.terms.items():
            r.terms[k] = (r.terms.get(k, 0) + sign * c) % _P
        return r

    def __add__(self, other):
        return self._combine(other, 1)

    def __sub__(self, other):
        return self._combine(other, -1)

    def __mul__(self, k):
        r = LinearCombination()
        r.terms = {i: (c * k) % _P for i, c in self.terms.items()}
        return r

    def __neg__(self):
        return self * -1


class R1csConstraint(object):
    def __init__(self, a, b, c):
        self.a, self.b, self.c = a, b, c


def fieldinverse(val):
    return pow(val % _P, _P - 2, _P)


def get_modulus():
    return _P
