"""Fake qaptools executables (qapgen, qapgenf, qapcoeffcache, qapinput, qapprove, qapver).

They parse their arguments like the real tools, read their input files at call time and write
plausible outputs; qapprove additionally evaluates every equation of every scheduled function
instance on the wire file, so a trace whose equations do not hold makes "proving" fail.
Set VERIF_TOOL_LOG to a file to get one JSON line per invocation (argv, inputs seen).
VERIF_TOOL_FAIL="<tool>:<n>" makes the n-th invocation of that tool exit 1 (counted through
the log file)."""
import hashlib
import json
import os
import sys

P = 21888242871839275222246405745257275088548364400416034343698204186575808495617


def log(rec):
    path = os.environ.get("VERIF_TOOL_LOG")
    if path:
        with open(path, "a") as f:
            f.write(json.dumps(rec) + "\n")


def count_calls(tool):
    path = os.environ.get("VERIF_TOOL_LOG")
    n = 0
    if path and os.path.exists(path):
        for ln in open(path):
            try:
                if json.loads(ln).get("tool") == tool:
                    n += 1
            except ValueError:
                pass
    return n


def read(path):
    with open(path) as f:
        return f.read()


def digest(s):
    return hashlib.md5(s.encode()).hexdigest()[:12]


def parse_terms(toks):
    out = []
    for i in range(0, len(toks), 2):
        out.append((int(toks[i]), toks[i + 1]))
    return out


def parse_equation(line):
    """'<terms> * <terms> = <terms> [.]' -> (A, B, C)"""
    toks = line.split()
    if toks and toks[-1] == ".":
        toks = toks[:-1]
    star, eq = toks.index("*"), toks.index("=")
    return parse_terms(toks[:star]), parse_terms(toks[star + 1:eq]), parse_terms(toks[eq + 1:])


def main(tool, argv):
    fail = os.environ.get("VERIF_TOOL_FAIL", "")
    nth = count_calls(tool) + 1
    rec = {"tool": tool, "argv": argv, "n": nth}
    if fail:
        t, _, n = fail.partition(":")
        if t == tool and int(n or 1) == nth:
            rec["injected_failure"] = True
            rec["rc"] = 1
            log(rec)
            return 1
    try:
        rc = TOOLS[tool](argv, rec)
    except Exception as e:  # a tool that cannot read its input fails like the real one would
        rec["error"] = "%s: %s" % (type(e).__name__, e)
        rc = 1
    rec["rc"] = rc
    log(rec)
    return rc


def qapgen(argv, rec):
    eksize, pksize, msk, mkey, mpkey = int(argv[0]), int(argv[1]), argv[2], argv[3], argv[4]
    if not os.path.exists(msk):
        with open(msk, "w") as f:
            f.write("fake-msk 0 0\n")
    with open(mkey, "w") as f:
        f.write("fake mkey %d\n" % eksize)
    with open(mpkey, "w") as f:
        f.write("fake mpkey %d\n" % pksize)
    return 0


def qapgenf(argv, rec):
    mkey, secret, eqs, ek, vk, sig = argv[:6]
    read(mkey)
    read(secret)
    body = read(eqs)
    rec["eqs_digest"] = digest(body)
    rec["eqs_lines"] = len(body.splitlines())
    with open(ek, "w") as f:
        f.write("%s fake-ek %s\n" % (sig, digest(body)))
    with open(vk, "w") as f:
        f.write("%s fake-vk %s\n" % (sig, digest(body)))
    return 0


def qapcoeffcache(argv, rec):
    read(argv[0])
    sys.stdout.write("fake coeffcache %s\n" % argv[1])
    return 0


def qapinput(argv, rec):
    mpkey, bfile = argv[:2]
    read(mpkey)
    vals = [int(x) for x in read(bfile).split()]
    sys.stdout.write("fake-comm %s\n" % digest(" ".join(map(str, vals))))
    return 0


def qapprove(argv, rec):
    mkey, wires, io, sched = argv[:4]
    read(mkey)
    vals = {}
    for fn in (wires, io):
        for ln in read(fn).splitlines():
            if not ln or ln.startswith("#"):
                continue
            nm, _, v = ln.partition(":")
            vals[nm.strip()] = int(v.strip())
    bad = []
    nfun = neq = 0
    for ln in read(sched).splitlines():
        toks = ln.split()
        if not toks or toks[0] != "[function]":
            continue
        nfun += 1
        call, eqsf, ekf = toks[1], toks[2], toks[3]
        read(ekf)
        for eq in read(eqsf).splitlines():
            if not eq or eq.startswith("[") or eq.startswith("#"):
                continue
            neq += 1
            a, b, c = parse_equation(eq)

            def ev(ts):
                s = 0
                for cf, nm in ts:
                    s += cf * (1 if nm == "one" else vals[call + "/" + nm])
                return s % P
            if (ev(a) * ev(b) - ev(c)) % P:
                bad.append((call, eq))
    rec["functions"] = nfun
    rec["equations"] = neq
    rec["unsatisfied"] = len(bad)
    if bad:
        sys.stderr.write("fake qapprove: %d equations do not hold, e.g. %s\n" % (len(bad), bad[0]))
        return 1
    sys.stdout.write("fake-proof functions=%d equations=%d %s\n" % (nfun, neq, digest(read(sched))))
    return 0


def qapver(argv, rec):
    mpkey, sched, proof, io = argv[:4]
    read(mpkey)
    read(sched)
    read(io)
    return 0 if read(proof).startswith("fake-proof") else 1


TOOLS = {"qapgen": qapgen, "qapgenf": qapgenf, "qapcoeffcache": qapcoeffcache, "qapinput": qapinput,
         "qapprove": qapprove, "qapver": qapver}

if __name__ == "__main__":
    sys.exit(main(os.path.basename(sys.argv[0]), sys.argv[1:]))
