def Get(packer_type, buf, head):
    return packer_type.unpack_from(memoryview(buf), head)[0]


def Write(packer_type, buf, head, n):
    packer_type.pack_into(buf, head, n)
