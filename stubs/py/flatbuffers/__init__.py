"""Stub of the `flatbuffers` Python package, written for /verif from the FlatBuffers
binary format specification (the real package is not installable offline).

Only the builder half is implemented: exactly the methods that the generated modules under
pysnark/zkinterface and pysnark/zkinterface/backend.py call.  Buffers are built back to
front, as the format requires: scalars little-endian, every scalar aligned to its size,
tables start with a signed 32-bit offset to their vtable, vtables are sequences of 16-bit
entries (vtable size, table size, per-field offsets), vectors are a 32-bit element count
followed by the elements, offsets are unsigned 32-bit distances from the field to the
target.  Vtables are not shared between tables (the format permits but does not require it).
"""
from . import compat, number_types, encode, packer, table, util  # noqa: F401
from .builder import Builder  # noqa: F401

__version__ = "verif-stub"
