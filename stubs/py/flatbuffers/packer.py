import struct
uoffset = struct.Struct("<I")
soffset = struct.Struct("<i")
voffset = struct.Struct("<H")
