def BufferHasIdentifier(buf, offset, file_identifier, size_prefixed=False):
    start = offset + 4 + (4 if size_prefixed else 0)
    return bytes(buf[start:start + 4]) == bytes(file_identifier)
