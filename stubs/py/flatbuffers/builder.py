import struct


class BuilderError(RuntimeError):
    pass


class Builder(object):
    def __init__(self, initialSize=1024):
        if initialSize < 8:
            initialSize = 8
        self.Bytes = bytearray(initialSize)
        self.head = initialSize
        self.minalign = 1
        self.current_vtable = None
        self.objectEnd = None
        self.nested = False
        self.finished = False
        self.vectorNumElems = None

    # ---- buffer management
    def Offset(self):
        return len(self.Bytes) - self.head

    def Head(self):
        return self.head

    def Output(self):
        if not self.finished:
            raise BuilderError("Builder not finished")
        return self.Bytes[self.head:]

    def _grow(self):
        old = self.Bytes
        new = bytearray(len(old) * 2)
        new[len(old):] = old
        self.Bytes = new
        self.head += len(old)

    def Pad(self, n):
        for _ in range(n):
            self.head -= 1
            self.Bytes[self.head] = 0

    def Prep(self, size, additionalBytes):
        """Make room so that, after `additionalBytes` have been written, the head is
        aligned to `size`."""
        if size > self.minalign:
            self.minalign = size
        alignSize = (~(len(self.Bytes) - self.head + additionalBytes)) + 1
        alignSize &= (size - 1)
        while self.head < alignSize + size + additionalBytes:
            self._grow()
        self.Pad(alignSize)

    def _place(self, fmt, width, x):
        self.head -= width
        struct.pack_into(fmt, self.Bytes, self.head, x)

    def _prepend(self, fmt, width, x):
        self.Prep(width, 0)
        self._place(fmt, width, x)

    # ---- scalars
    def PrependBool(self, x): self._prepend("<?", 1, bool(x))
    def PrependByte(self, x): self._prepend("<B", 1, x)
    def PrependUint8(self, x): self._prepend("<B", 1, x)
    def PrependUint16(self, x): self._prepend("<H", 2, x)
    def PrependUint32(self, x): self._prepend("<I", 4, x)
    def PrependUint64(self, x): self._prepend("<Q", 8, x)
    def PrependInt8(self, x): self._prepend("<b", 1, x)
    def PrependInt16(self, x): self._prepend("<h", 2, x)
    def PrependInt32(self, x): self._prepend("<i", 4, x)
    def PrependInt64(self, x): self._prepend("<q", 8, x)

    def PrependUOffsetTRelative(self, off):
        self.Prep(4, 0)
        if not (off <= self.Offset()):
            raise BuilderError("flatbuffers: Offset arithmetic error.")
        self._place("<I", 4, self.Offset() - off + 4)

    # ---- vectors
    def StartVector(self, elemSize, numElems, alignment):
        if self.nested:
            raise BuilderError("nested vector/object")
        self.nested = True
        self.vectorNumElems = numElems
        self.Prep(4, elemSize * numElems)
        self.Prep(alignment, elemSize * numElems)
        return self.Offset()

    def EndVector(self, numElems=None):
        if not self.nested:
            raise BuilderError("EndVector without StartVector")
        self.nested = False
        if numElems is None:
            numElems = self.vectorNumElems
        self._place("<I", 4, numElems)
        self.vectorNumElems = None
        return self.Offset()

    # ---- tables
    def StartObject(self, numfields):
        if self.nested:
            raise BuilderError("nested vector/object")
        self.current_vtable = [0] * numfields
        self.objectEnd = self.Offset()
        self.nested = True

    def Slot(self, slotnum):
        if not self.nested:
            raise BuilderError("Slot outside object")
        self.current_vtable[slotnum] = self.Offset()

    def _slot_scalar(self, prepend, o, x, d):
        if x != d:
            prepend(x)
            self.Slot(o)

    def PrependBoolSlot(self, o, x, d): self._slot_scalar(self.PrependBool, o, x, d)
    def PrependByteSlot(self, o, x, d): self._slot_scalar(self.PrependByte, o, x, d)
    def PrependUint8Slot(self, o, x, d): self._slot_scalar(self.PrependUint8, o, x, d)
    def PrependUint16Slot(self, o, x, d): self._slot_scalar(self.PrependUint16, o, x, d)
    def PrependUint32Slot(self, o, x, d): self._slot_scalar(self.PrependUint32, o, x, d)
    def PrependUint64Slot(self, o, x, d): self._slot_scalar(self.PrependUint64, o, x, d)
    def PrependInt8Slot(self, o, x, d): self._slot_scalar(self.PrependInt8, o, x, d)
    def PrependInt16Slot(self, o, x, d): self._slot_scalar(self.PrependInt16, o, x, d)
    def PrependInt32Slot(self, o, x, d): self._slot_scalar(self.PrependInt32, o, x, d)
    def PrependInt64Slot(self, o, x, d): self._slot_scalar(self.PrependInt64, o, x, d)

    def PrependUOffsetTRelativeSlot(self, o, x, d):
        if x != d:
            self.PrependUOffsetTRelative(x)
            self.Slot(o)

    def EndObject(self):
        if not self.nested or self.current_vtable is None:
            raise BuilderError("EndObject without StartObject")
        # placeholder for the offset to the vtable
        self.Prep(4, 0)
        self._place("<i", 4, 0)
        objectOffset = self.Offset()
        vt = self.current_vtable
        n = len(vt)
        while n > 0 and vt[n - 1] == 0:
            n -= 1
        for i in reversed(range(n)):
            off = 0 if vt[i] == 0 else objectOffset - vt[i]
            self._prepend("<H", 2, off)
        self._prepend("<H", 2, objectOffset - self.objectEnd)   # table size
        self._prepend("<H", 2, (n + 2) * 2)                      # vtable size
        objectStart = len(self.Bytes) - objectOffset
        struct.pack_into("<i", self.Bytes, objectStart, self.Offset() - objectOffset)
        self.current_vtable = None
        self.nested = False
        return objectOffset

    # ---- finish
    def _finish(self, rootTable, sizePrefix):
        prepSize = 4 + (4 if sizePrefix else 0)
        self.Prep(self.minalign, prepSize)
        self.PrependUOffsetTRelative(rootTable)
        if sizePrefix:
            size = len(self.Bytes) - self.head
            self._prepend("<i", 4, size)
        self.finished = True
        return self.head

    def Finish(self, rootTable, file_identifier=None):
        return self._finish(rootTable, False)

    def FinishSizePrefixed(self, rootTable, file_identifier=None):
        return self._finish(rootTable, True)
