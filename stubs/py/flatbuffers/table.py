class Table(object):
    """Reading side is not provided by the stub (the checker has its own reader)."""
    def __init__(self, buf, pos):
        self.Bytes = buf
        self.Pos = pos
