class _Flags(object):
    bytewidth = 0
    fmt = ""

    @staticmethod
    def py_type(x):
        return int(x)


def _mk(name, width, fmt):
    return type(name, (_Flags,), {"bytewidth": width, "fmt": fmt})


BoolFlags = _mk("BoolFlags", 1, "<?")
Uint8Flags = _mk("Uint8Flags", 1, "<B")
Uint16Flags = _mk("Uint16Flags", 2, "<H")
Uint32Flags = _mk("Uint32Flags", 4, "<I")
Uint64Flags = _mk("Uint64Flags", 8, "<Q")
Int8Flags = _mk("Int8Flags", 1, "<b")
Int16Flags = _mk("Int16Flags", 2, "<h")
Int32Flags = _mk("Int32Flags", 4, "<i")
Int64Flags = _mk("Int64Flags", 8, "<q")
UOffsetTFlags = _mk("UOffsetTFlags", 4, "<I")
SOffsetTFlags = _mk("SOffsetTFlags", 4, "<i")
VOffsetTFlags = _mk("VOffsetTFlags", 2, "<H")
