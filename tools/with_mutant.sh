#!/bin/sh
# usage: tools/with_mutant.sh <patch file> <command...>
# Applies the patch to a scratch worktree of /repo (never to /repo itself), runs the command with
# VERIF_REPO pointing at it, then removes the worktree.  Exit status is the command's.
PATCH="$(readlink -f "$1")"; shift
WT="$(mktemp -d /tmp/mutant-XXXXXX)"
rmdir "$WT"
# (several of these may run at once: retry when another one holds git's lock)
N=0
until git -C /repo worktree add --detach -q "$WT" HEAD 2>/dev/null; do
  N=$((N + 1)); [ $N -ge 10 ] && { echo "cannot create scratch worktree"; exit 2; }
  sleep 1
done
# (a patch made against an older HEAD: fall back to a three-way merge with the blobs it names)
if ! git -C "$WT" apply "$PATCH" 2>/dev/null && ! git -C "$WT" apply --3way "$PATCH" 2>/dev/null; then
  echo "patch does not apply"; git -C /repo worktree remove --force "$WT"; exit 2
fi
VERIF_REPO="$WT" "$@"
RC=$?
git -C /repo worktree remove --force "$WT"
exit $RC
