#!/bin/sh
# usage: tools/with_mutant.sh <patch file> <command...>
# Applies the patch to a scratch worktree of /repo (never to /repo itself), runs the command with
# VERIF_REPO pointing at it, then removes the worktree.  Exit status is the command's.
PATCH="$(readlink -f "$1")"; shift
WT="$(mktemp -d /tmp/mutant-XXXXXX)"
rmdir "$WT"
git -C /repo worktree add --detach -q "$WT" HEAD || exit 2
if ! git -C "$WT" apply "$PATCH"; then
  echo "patch does not apply"; git -C /repo worktree remove --force "$WT"; exit 2
fi
VERIF_REPO="$WT" "$@"
RC=$?
git -C /repo worktree remove --force "$WT"
exit $RC
