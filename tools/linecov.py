#!/venv/bin/python
"""tools/linecov.py <check> [<check> ...] : which executable lines of /repo/pysnark do the in-process checks reach?

A reach measure only (section 9.5 of DESIGN.md): runs each named check in this process (one worker, VERIF_RUNS
runs, default 200, no evidence written) under sys.monitoring LINE events restricted to files below
$VERIF_REPO/pysnark and prints, per file, the executable lines never executed.  Child interpreters (exitsim) are not
followed.  Nothing in the checks reads this.
"""
import os
import sys

sys.path.insert(0, os.path.dirname(os.path.dirname(os.path.abspath(__file__))))
os.environ.setdefault("VERIF_WORKERS", "1")
os.environ.setdefault("VERIF_RUNS", "200")
os.environ["VERIF_NO_EVIDENCE"] = "1"

from sim import engine, world  # noqa: E402

ROOT = os.path.join(world.REPO, "pysnark") + os.sep
hits = {}
mon = sys.monitoring
TOOL = 3


def on_line(code, line):
    fn = code.co_filename
    if fn.startswith(ROOT):
        hits.setdefault(fn, set()).add(line)
    return mon.DISABLE


def executable_lines(path):
    with open(path, "rb") as f:
        src = f.read()
    out = set()
    todo = [compile(src, path, "exec")]
    while todo:
        co = todo.pop()
        for _, _, ln in co.co_lines():
            if ln is not None:
                out.add(ln)
        for c in co.co_consts:
            if hasattr(c, "co_lines"):
                todo.append(c)
    return out


def ranges(nums):
    nums = sorted(nums)
    out, i = [], 0
    while i < len(nums):
        j = i
        while j + 1 < len(nums) and nums[j + 1] == nums[j] + 1:
            j += 1
        out.append(str(nums[i]) if i == j else "%d-%d" % (nums[i], nums[j]))
        i = j + 1
    return ",".join(out)


def main(names):
    scratch = os.path.join("/tmp", "linecov-%d" % os.getpid())
    os.makedirs(scratch, exist_ok=True)
    os.chdir(scratch)
    mon.use_tool_id(TOOL, "verif-linecov")
    mon.register_callback(TOOL, mon.events.LINE, on_line)
    mon.set_events(TOOL, mon.events.LINE)
    try:
        for n in names:
            engine.run_check(n, "quick")
    finally:
        mon.set_events(TOOL, 0)
        mon.free_tool_id(TOOL)
    print("\n== executable lines of %s never reached by %s" % (ROOT, " ".join(names)))
    for dirpath, _, files in sorted(os.walk(ROOT)):
        for fn in sorted(files):
            if not fn.endswith(".py"):
                continue
            path = os.path.join(dirpath, fn)
            ex = executable_lines(path)
            got = hits.get(path, set())
            miss = ex - got
            if not got:
                continue
            print("%-40s %4d/%4d  missing: %s" % (path[len(ROOT):], len(ex) - len(miss), len(ex), ranges(miss)))
    import shutil
    os.chdir("/")
    shutil.rmtree(scratch, ignore_errors=True)


if __name__ == "__main__":
    main(sys.argv[1:])
