#!/usr/bin/env python3
"""tools/keep_seed.py <ID> <dest-name> "<caught by / missed note>" : archive a confirmed seeded change."""
import json, os, shutil, sys
ID, name, note = sys.argv[1], sys.argv[2], sys.argv[3]
src = "/tmp/seed/%s/SEED" % ID
dst = "/verif/seeded/%s" % name
os.makedirs(dst, exist_ok=True)
for f in ("patch.diff", "demo.py", "meta.json"):
    shutil.copy(os.path.join(src, f), os.path.join(dst, f))
m = json.load(open(os.path.join(dst, "meta.json")))
m["confirmed_by_verifier"] = ("patch applied to a fresh scratch worktree of /repo HEAD (tools/try_seed.sh): unedited test "
                              "suite 75 passed with the change; demo fails with the change and passes without it")
m["check_result"] = note
json.dump(m, open(os.path.join(dst, "meta.json"), "w"), indent=1)
print("kept", dst)
