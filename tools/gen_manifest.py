#!/venv/bin/python
"""Regenerates /verif/MANIFEST.json from the registered checks (kept in one place so the
manifest cannot drift from the code)."""
import json
import os
import sys

HERE = os.path.dirname(os.path.dirname(os.path.abspath(__file__)))
sys.path.insert(0, HERE)
from sim import engine, checks  # noqa: E402,F401
from sim.manifest_data import CHECK_META, NOT_APPLICABLE, ENGINES, NOTES  # noqa: E402

m = {
    "version": 1,
    "setup_cmd": "chmod +x vcheck tools/*.sh stubs/qaptools-bin/* 2>/dev/null; /venv/bin/python -c \"import sys; sys.path.insert(0,'.'); import sim.checks\"",
    "hooks": {
        "guard": "MEILOF_PYSNARK_VERIF",
        "enable": "no hook exists in /repo: every seam is reached from outside (module attributes, sys.modules, "
                  "environment, PYTHONPATH stubs); checks import /repo's working tree fresh for every run",
        "baseline_off_cmd": "cd /repo && /venv/bin/python -m pytest -ra -q -p no:cacheprovider --timeout=900 --continue-on-collection-errors",
        "source_commits": [],
        "add_only": True,
    },
    "engines": ENGINES,
    "checks": [],
    "notes": NOTES,
    "not_applicable": NOT_APPLICABLE,
}
for name in sorted(engine._CHECKS):
    chk = engine._CHECKS[name]
    meta = CHECK_META[chk.prop]
    m["checks"].append({
        "property_id": chk.prop,
        "quick_cmd": "timeout 900 ./vcheck %s quick" % name,
        "thorough_cmd": "timeout 7200 ./vcheck %s thorough" % name,
        "evidence_file": "/verif/evidence/%s.json" % chk.prop,
        "replay_cmd_template": "./vcheck replay {path}",
        "engine": meta["engine"],
        "level_claimed": {"category": "exploration", "text": meta["text"], "design_ref": meta["design_ref"]},
        "level_note": meta["note"],
        "technique": meta["technique"],
    })
claimed = {c["property_id"] for c in m["checks"]}
na = {x["property_id"] for x in NOT_APPLICABLE}
allp = [json.loads(l)["id"] for l in open(os.path.join(HERE, "properties.jsonl"))]
missing = [p for p in allp if p not in claimed and p not in na]
for p in missing:
    m["not_applicable"].append({"property_id": p, "reason": "not yet claimed: the check for this property is "
                                "still being built (see DESIGN.md); nothing is asserted about it"})
with open(os.path.join(HERE, "MANIFEST.json"), "w") as f:
    json.dump(m, f, indent=1)
print("claimed:", sorted(claimed), "unclaimed:", sorted(na | set(missing)))
