#!/bin/sh
# usage: tools/soak.sh <first seed> <count> [tier]   - every check under many master seeds; prints only problems
S0="${1:-100}"; N="${2:-5}"; TIER="${3:-quick}"
cd "$(dirname "$0")/.." || exit 2
i=0
while [ $i -lt $N ]; do
  SEED=$((S0 + i))
  for C in C01 C02 C03 C04 C06 C07 C08 C09 C10 C11 C12 C13 C15 C16 C17 C18 C19 C20; do
    OUT=$(VERIF_SEED=$SEED VERIF_NO_EVIDENCE=1 ./vcheck $C $TIER 2>&1); RC=$?
    if [ $RC -ne 0 ]; then
      echo "SOAK seed=$SEED check=$C rc=$RC"; echo "$OUT" | grep -E "VIOLATION|oracle=|HARNESS|Error" | head -8
      # keep the replay files outside the (temporary) snapshot this may be running from
      mkdir -p "${SOAK_KEEP:-/root/.vp/soak-replays}"
      for F in $(echo "$OUT" | sed -n 's/^VIOLATION .*replay=//p'); do cp "$F" "${SOAK_KEEP:-/root/.vp/soak-replays}/" 2>/dev/null; done
    fi
  done
  echo "soak seed $SEED done"
  i=$((i + 1))
done
