#!/bin/sh
# tools/regen_evidence.sh : run every check's quick command in /verif against /repo with the default seed (this is
# what writes evidence/<id>.json), validate the evidence and MANIFEST.json against their schemas, regenerate MANIFEST.
cd "$(dirname "$0")/.." || exit 2
RC=0
for C in C01 C02 C03 C04 C06 C07 C08 C09 C10 C11 C12 C13 C15 C16 C17 C18 C19 C20; do
  ./vcheck $C quick > /tmp/regen_$C.txt 2>&1; R=$?
  echo "$C rc=$R $(grep '^done' /tmp/regen_$C.txt | cut -c1-170)"
  [ $R -ne 0 ] && RC=1
  rm -f /tmp/regen_$C.txt
done
/venv/bin/python tools/gen_manifest.py || RC=1
python3-vt - <<'PY' || RC=1
import json, glob, jsonschema, sys
sys.set_int_max_str_digits(0)
ev = json.load(open('/root/.vp/EVIDENCE.schema.json'))
for f in sorted(glob.glob('evidence/*.json')):
    jsonschema.validate(json.load(open(f)), ev)
jsonschema.validate(json.load(open('MANIFEST.json')), json.load(open('/root/.vp/MANIFEST.schema.json')))
print("evidence and manifest valid")
PY
exit $RC
