#!/usr/bin/env python3
"""tools/mkmutant.py <out.patch> <file relative to repo> <<< JSON [[old, new], ...]
Creates a unified diff against /repo HEAD by editing a scratch copy of one file (never /repo)."""
import json, os, subprocess, sys, tempfile
out, rel = sys.argv[1], sys.argv[2]
edits = json.load(sys.stdin)
src = subprocess.check_output(["git", "-C", "/repo", "show", "HEAD:" + rel])
new = src
for old, rep in edits:
    o, r = old.encode(), rep.encode()
    if b"\r\n" in src:
        o, r = o.replace(b"\n", b"\r\n"), r.replace(b"\n", b"\r\n")
    assert new.count(o) == 1, (old, new.count(o))
    new = new.replace(o, r)
d = tempfile.mkdtemp()
a, b = os.path.join(d, "a"), os.path.join(d, "b")
os.makedirs(os.path.join(a, os.path.dirname(rel))); os.makedirs(os.path.join(b, os.path.dirname(rel)))
open(os.path.join(a, rel), "wb").write(src); open(os.path.join(b, rel), "wb").write(new)
p = subprocess.run(["diff", "-u", "a/" + rel, "b/" + rel], cwd=d, capture_output=True)
open(out, "wb").write(p.stdout)
import shutil; shutil.rmtree(d)
print("wrote", out, len(p.stdout.splitlines()), "lines")
