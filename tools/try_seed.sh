#!/bin/sh
# usage: tools/try_seed.sh <ID> [check-to-run ...]
# Confirms a seeded change from /tmp/seed/<ID>/SEED (or /verif/seeded/<ID>): applies patch.diff to a FRESH
# scratch worktree of /repo HEAD, runs the unedited test suite, runs the demo with and without the change,
# then runs the named checks (default: the property's own) against the patched tree.  Removes the worktree.
ID="$1"; shift
SRC="/tmp/seed/$ID/SEED"; [ -f "$SRC/patch.diff" ] || SRC="/verif/seeded/$ID"
CHECKS="${*:-$ID}"
WT="$(mktemp -d /tmp/seedwt-XXXXXX)"; rmdir "$WT"
git -C /repo worktree add --detach -q "$WT" HEAD || exit 2
echo "== $ID: patch"; git -C "$WT" apply "$SRC/patch.diff" 2>/dev/null || git -C "$WT" apply --3way "$SRC/patch.diff" || { echo "PATCH DOES NOT APPLY"; git -C /repo worktree remove --force "$WT"; exit 2; }
git -C "$WT" diff --stat | tail -1
echo "== tests with the change"
( cd "$WT" && PYTHONPATH="$WT" /venv/bin/python -m pytest -q -p no:cacheprovider test 2>&1 | grep -E "passed|failed|error" | tail -1 )
rm -f "$WT/circuit.r1cs" "$WT/witness.wtns"
echo "== demo with the change (expect failure)"
D=$(mktemp -d); ( cd "$D" && SEED_REPO="$WT" PYTHONPATH="$WT:/tmp/seedtools/py" PYSNARK_BACKEND="${SEED_BACKEND:-snarkjs}" QAPTOOLS_BIN=/tmp/seedtools/qaptools-bin timeout 300 /venv/bin/python "$SRC/demo.py" > "$D/out.txt" 2>&1; echo "demo rc=$?"; tail -3 "$D/out.txt" )
echo "== demo without the change (expect success)"
git -C "$WT" diff > "$WT.applied.diff"; git -C "$WT" checkout -q -- . 2>/dev/null; git -C "$WT" reset -q --hard HEAD
( cd "$D" && SEED_REPO="$WT" PYTHONPATH="$WT:/tmp/seedtools/py" PYSNARK_BACKEND="${SEED_BACKEND:-snarkjs}" QAPTOOLS_BIN=/tmp/seedtools/qaptools-bin timeout 300 /venv/bin/python "$SRC/demo.py" > "$D/out0.txt" 2>&1; echo "demo rc=$?"; tail -2 "$D/out0.txt" )
git -C "$WT" apply "$WT.applied.diff"; rm -f "$WT.applied.diff"
rm -rf "$D"
for C in $CHECKS; do
  echo "== check $C against the change"
  VERIF_REPO="$WT" timeout 1500 /verif/vcheck "$C" quick 2>&1 | grep -E "^VIOLATION|^  oracle|^done|HARNESS" | cut -c1-260 | head -8
done
git -C /repo worktree remove --force "$WT"
